------------------------------ MODULE HcobsMC ------------------------------
(* Design model checking for C01/C02/C07: for ALL inputs up to MaxLen over *)
(* Alphabet and ALL segmentations into feed calls, the transcribed encoder *)
(* produces exactly RefEncode(input) (=> canonical, split-independent),    *)
(* stuff-free, within the length bound, and RefDecode inverts it; the      *)
(* transcribed decoder returns exactly RefDecode's verdict and bytes for   *)
(* ALL strings and segmentations; no transcribed assert! ever fails.       *)
(* The state graph is also the source of the replayed operation sequences. *)
EXTENDS HcobsCodec, TLC

CONSTANTS Side,       \* "enc" or "dec"
          L1, L2, R, Alphabet, MaxLen, MaxPiece

VARIABLES fed,    \* concatenation of everything fed so far
          enc,    \* encoder I-state
          dec,    \* decoder I-state
          done,   \* finish was called
          result  \* enc: final bytes; dec: [ok, out]
vars == <<fed, enc, dec, done, result>>

Pieces == UNION {[1..n -> Alphabet] : n \in 1..MaxPiece}

Init == fed = << >> /\ enc = EncNew(L1) /\ dec = DecNew /\ done = FALSE /\ result = << >>

Feed(piece) ==
  /\ ~done
  /\ Len(fed) + Len(piece) <= MaxLen
  /\ Side = "dec" => ~dec.err
  /\ fed' = fed \o piece
  /\ IF Side = "enc" THEN enc' = EncFeed(enc, piece, L2, R) /\ dec' = dec
                     ELSE dec' = DecFeed(dec, piece, L1, L2, R) /\ enc' = enc
  /\ UNCHANGED <<done, result>>

Finish ==
  /\ ~done
  /\ done' = TRUE
  /\ result' = IF Side = "enc" THEN EncFinish(enc, R)
               ELSE [ok |-> DecFinishOk(dec), out |-> dec.out]
  /\ UNCHANGED <<fed, enc, dec>>

Step(e) ==
  IF e.ev = "feed" THEN Feed(e.data) ELSE Finish
\* only the pieces that still fit (keeps the enumeration proportional to the successors)
PiecesUpTo(k) == UNION {[1..n -> Alphabet] : n \in 1..HMin(MaxPiece, k)}
Events == [ev : {"feed"}, data : PiecesUpTo(MaxLen - Len(fed))] \cup [ev : {"finish"}]
Next == \E e \in Events : Step(e)
Spec == Init /\ [][Next]_vars

NoAssert == ~enc.bad /\ (done /\ Side = "enc" => ~result.bad)

\* C07 (encoder half) and C02 (function of the input only)
Canonical == done /\ Side = "enc" => result.out = RefEncode(fed, L1, L2, R)
\* C02
NoStuff   == done /\ Side = "enc" => ~HasStuff(result.out)
Bounded   == done /\ Side = "enc" => Len(result.out) <= EncBound(Len(fed), L2)
\* C01 at format level
RoundTrip == done /\ Side = "enc" =>
               LET d == RefDecode(result.out, L1, L2, R) IN d.ok /\ d.out = fed
\* C09 at design level: what is consumable mid-stream is a prefix of the eventual result
StablePrefix == ~done /\ Side = "enc" =>
               \A ext \in {<< >>} \cup UNION {[1..n -> Alphabet] : n \in 1..2} :
                  IsPrefixOf(EncStable(enc), RefEncode(fed \o ext, L1, L2, R))
\* C07 (decoder half): verdict and bytes are exactly the format's, for every segmentation
DecExact == done /\ Side = "dec" =>
               LET d == RefDecode(fed, L1, L2, R) IN
               /\ result.ok = d.ok
               /\ d.ok => result.out = d.out
\* a rejected prefix stays rejected, and streaming output is the format's partial output
DecStream == ~done /\ Side = "dec" =>
               LET d == RefDecode(fed, L1, L2, R) IN
               IF dec.err THEN ~d.ok
               ELSE IsPrefixOf(dec.out, d.out \o (IF d.pend THEN <<FE, FD>> ELSE << >>))
=============================================================================
