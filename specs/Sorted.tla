------------------------------- MODULE Sorted -------------------------------
(***************************************************************************)
(* C16.  A-spec: an ordered map with append-only insertion (OrdMap part),  *)
(* I-spec: a transcription of sliding_deque/src/sorted_deque.rs on top of  *)
(* the SlidingDeque I-spec of Deque.tla (so that the composition that      *)
(* exposed finding F2 is part of the model).                               *)
(*                                                                         *)
(* Items are pairs <<k, v>>; v = 0 encodes "erased" (None).  Two item      *)
(* conventions ("mode"):                                                   *)
(*   "kv"   - (Key, Option<Value>) pairs, the key is k alone;              *)
(*   "item" - SortedDequeItem: the whole item is the key, ordered          *)
(*            lexicographically (k, then v with erased lowest).            *)
(* Lookups carry <<k, v>>; in "kv" mode v is ignored.                      *)
(***************************************************************************)
EXTENDS Deque, FiniteSets

Less(mode, a, b) == IF mode = "kv" THEN a[1] < b[1]
                    ELSE a[1] < b[1] \/ (a[1] = b[1] /\ a[2] < b[2])
KeyEq(mode, item, key) == IF mode = "kv" THEN item[1] = key[1] ELSE item = key

NoItem == << >>

MinOf(S) == CHOOSE x \in S : \A y \in S : x <= y

(***************************************************************************)
(* A-spec: `live` is the sequence of present items in ascending order.     *)
(***************************************************************************)
OInit == << >>

Matching(mode, live, key) == {i \in 1..Len(live) : KeyEq(mode, live[i], key)}
RemoveAt(q, i) == SubSeq(q, 1, i - 1) \o SubSeq(q, i + 1, Len(q))

OApply(live, e, mode) ==
  CASE e.ev = "push" ->
         IF e.v = 0 THEN [st |-> live, ret |-> NoItem, panic |-> FALSE]          \* erased: no-op
         ELSE IF live # << >> /\ ~Less(mode, Last(live), <<e.k, e.v>>)
              THEN [st |-> live, ret |-> NoItem, panic |-> TRUE]                \* must panic
              ELSE [st |-> Append(live, <<e.k, e.v>>), ret |-> NoItem, panic |-> FALSE]
    [] e.ev = "find" ->
         LET M == Matching(mode, live, <<e.k, e.v>>) IN
         [st |-> live, ret |-> IF M = {} THEN NoItem ELSE live[MinOf(M)], panic |-> FALSE]
    [] e.ev = "remove" ->
         LET M == Matching(mode, live, <<e.k, e.v>>) IN
         IF M = {} THEN [st |-> live, ret |-> NoItem, panic |-> FALSE]
         ELSE [st |-> RemoveAt(live, MinOf(M)), ret |-> live[MinOf(M)], panic |-> FALSE]
    [] e.ev = "pop_first" ->
         IF live = << >> THEN [st |-> live, ret |-> NoItem, panic |-> FALSE]
         ELSE [st |-> Tail(live), ret |-> Head(live), panic |-> FALSE]
    [] e.ev = "pop_last" ->
         IF live = << >> THEN [st |-> live, ret |-> NoItem, panic |-> FALSE]
         ELSE [st |-> ButLast(live), ret |-> Last(live), panic |-> FALSE]
    [] e.ev = "clear" -> [st |-> << >>, ret |-> NoItem, panic |-> FALSE]

OFirst(live) == IF live = << >> THEN NoItem ELSE Head(live)
OLast(live)  == IF live = << >> THEN NoItem ELSE Last(live)

(***************************************************************************)
(* I-spec: s is a SlidingDeque I-state [c, k] whose elements are items.    *)
(***************************************************************************)
Erased(item) == item[2] = 0

Inner(s, ev, BugF2) == IApply(s, [ev |-> ev], BugF2).st
InnerAdvance(s, n)  == IApply(s, [ev |-> "advance", n |-> n], FALSE).st

CleanupFront(s) ==
  LET view == IView(s)
      idxs == {i \in 1..Len(view) : ~Erased(view[i])}
      toDrop == IF idxs = {} THEN Len(view) ELSE MinOf(idxs) - 1     \* usize::MAX clamps to len
  IN InnerAdvance(s, toDrop)

RECURSIVE CleanupBack(_, _)
CleanupBack(s, BugF2) ==
  IF ~IIsEmpty(s) /\ Erased(Last(s.c)) THEN CleanupBack(Inner(s, "pop_back", BugF2), BugF2) ELSE s

SPopFirst(s, BugF2) ==
  IF IIsEmpty(s) THEN [st |-> s, ret |-> NoItem]
  ELSE [st |-> CleanupFront(Inner(s, "pop_front", BugF2)), ret |-> s.c[s.k + 1]]

SPopLast(s, BugF2) ==
  IF IIsEmpty(s) THEN [st |-> s, ret |-> NoItem]
  ELSE [st |-> CleanupBack(Inner(s, "pop_back", BugF2), BugF2), ret |-> Last(s.c)]

\* binary_search_by over the physical view; the physical keys are strictly increasing, so
\* any correct binary search finds the unique match.  Erased items keep their key in "kv"
\* mode and become <<k, 0>> in "item" mode.
NP(r) == [st |-> r.st, ret |-> r.ret, panic |-> FALSE]

FindIndex(mode, s, key) ==
  LET view == IView(s)
      M == {i \in 1..Len(view) : KeyEq(mode, view[i], key)}
  IN IF M = {} THEN 0 ELSE MinOf(M)

SApply(s, e, mode, BugF2) ==
  CASE e.ev = "push" ->
         IF e.v = 0 THEN [st |-> s, ret |-> NoItem, panic |-> FALSE]
         ELSE IF ~IIsEmpty(s) /\ ~Less(mode, Last(s.c), <<e.k, e.v>>)
              THEN [st |-> s, ret |-> NoItem, panic |-> TRUE]
              ELSE [st |-> [s EXCEPT !.c = Append(s.c, <<e.k, e.v>>)], ret |-> NoItem, panic |-> FALSE]
    [] e.ev = "find" ->
         LET i == FindIndex(mode, s, <<e.k, e.v>>) IN
         [st |-> s, panic |-> FALSE,
          ret |-> IF i = 0 \/ Erased(IView(s)[i]) THEN NoItem ELSE IView(s)[i]]
    [] e.ev = "remove" ->
         LET i == FindIndex(mode, s, <<e.k, e.v>>)
             len == Len(IView(s))
         IN IF i = 0 \/ Erased(IView(s)[i]) THEN [st |-> s, ret |-> NoItem, panic |-> FALSE]
            ELSE IF i = 1 THEN NP(SPopFirst(s, BugF2))
            ELSE IF i = len THEN NP(SPopLast(s, BugF2))
            ELSE [st |-> [s EXCEPT !.c[s.k + i] = <<@[1], 0>>], ret |-> IView(s)[i], panic |-> FALSE]
    [] e.ev = "pop_first" -> NP(SPopFirst(s, BugF2))
    [] e.ev = "pop_last"  -> NP(SPopLast(s, BugF2))
    [] e.ev = "clear"     -> [st |-> IClear(s), ret |-> NoItem, panic |-> FALSE]

NotErased(item) == ~Erased(item)
SLive(s) == SelectSeq(IView(s), NotErased)        \* abstraction function: iter()

\* SortedDeque::check_rep plus the representation invariants the algorithm relies on.
SCheckRep(s) == IIsEmpty(s) \/ (~Erased(s.c[s.k + 1]) /\ ~Erased(Last(s.c)))
SSorted(mode, s) == \A i \in 1..(Len(IView(s)) - 1) : Less(mode, IView(s)[i], IView(s)[i + 1])
=============================================================================
