----------------------------- MODULE DequeTrace -----------------------------
(* Trace validation for C15: every event recorded from the real            *)
(* SlidingDeque (one per public call: operation, arguments, return value,  *)
(* the full view, len/is_empty/front/back, hook H1's two numbers, panic)   *)
(* is checked against the A-spec of Deque.tla.  The I-spec is carried      *)
(* along as well; a mismatch of the *internal* projection is DRIFT, not a  *)
(* violation.  The spec is total: a mismatch is recorded in `viol` and the *)
(* rest of that run is skipped, the rest of the file is still checked.     *)
EXTENDS Deque, TLC, Json, IOUtils, FiniteSets

Rec == ndJsonDeserialize(IOEnv.TRACE)

VARIABLES l,       \* next line of Rec to consume
          m,       \* A-spec state
          s,       \* I-spec state
          failed,  \* this run already produced a violation: skip to next reset
          viol,    \* set of [run, line, prop, what]
          drift    \* set of [run, line, what]
vars == <<l, m, s, failed, viol, drift>>

\* keep the violation set small (per property): a broken build can fail tens of thousands of runs
CapViol(v, new) == v \cup {x \in new : Cardinality({y \in v : y.prop = x.prop}) < 25}

Init == l = 1 /\ m = AInit /\ s = IInit /\ failed = FALSE /\ viol = {} /\ drift = {}

B(x) == IF x THEN 1 ELSE 0

\* The A-level monitors: each yields a set of complaints (empty = fine).
Check(e, ar) ==
  LET m2 == ar.st IN
     (IF e.panic # "" THEN {"panic: " \o e.panic} ELSE
        (IF e.ret # ar.ret THEN {"return value"} ELSE {})
   \cup (IF e.view # m2 THEN {"view differs from reference deque"} ELSE {})
   \cup (IF e.len # Len(m2) THEN {"len"} ELSE {})
   \cup (IF e.empty # B(m2 = << >>) THEN {"is_empty"} ELSE {})
   \cup (IF e.front # AFront(m2) THEN {"front"} ELSE {})
   \cup (IF e.back # ABack(m2) THEN {"back"} ELSE {})
   \cup (IF ~WasteOK(e.consumed, e.clen) THEN {"waste bound: consumed > container/2"} ELSE {}))

Next ==
  /\ l <= Len(Rec)
  /\ l' = l + 1
  /\ LET e == Rec[l] IN
     IF e.ev = "reset_after_crash" THEN      \* the process died in this run (reported by the orchestrator)
        /\ failed' = TRUE /\ UNCHANGED <<m, s, viol, drift>>
     ELSE IF e.ev = "reset" THEN
        /\ m' = e.init /\ s' = [c |-> e.init, k |-> 0]
        /\ failed' = FALSE /\ UNCHANGED <<viol, drift>>
     ELSE IF failed THEN UNCHANGED <<m, s, failed, viol, drift>>
     ELSE LET ar == AApply(m, e)
              ir == IApply(s, e, FALSE)
              bad == Check(e, ar)
          IN /\ m' = ar.st
             /\ s' = ir.st
             /\ failed' = (bad # {})
             /\ viol' = CapViol(viol, {[run |-> e.run, line |-> l, prop |-> "C15", what |-> w] : w \in bad})
             /\ drift' = IF bad = {} /\ (e.consumed # ir.st.k \/ e.clen # Len(ir.st.c))
                         THEN drift \cup {[run |-> e.run, line |-> l, what |-> "consumed/container length differ from transcription"]}
                         ELSE drift

Spec == Init /\ [][Next]_vars

\* Evaluated once per distinct state; the last state reports.
Done == (l = Len(Rec) + 1) =>
          /\ PrintT(<<"TV-VIOL", ToJson(viol)>>)
          /\ PrintT(<<"TV-DRIFT", ToJson(drift)>>)
          /\ PrintT(<<"TV-DONE", Len(Rec)>>)
=============================================================================
