---------------------------- MODULE HcobsOnIovec ----------------------------
(***************************************************************************)
(* Composition (design level of C09, and of C02/C04 in combination): the   *)
(* transcribed HCOBS encoder (EncoderState: consume_once / encode_header / *)
(* terminate) running ON the transcribed OwningIovec (OwningIovecImpl:     *)
(* push / push_copy / register_patch / backfill_or_panic / stable_prefix / *)
(* consume / advance), with tiny constants.  The chunk header is a real    *)
(* placeholder in the iovec; a consumer drains the stable prefix at any    *)
(* moment and in any amount.                                               *)
(*                                                                         *)
(* Checked for ALL inputs up to MaxLen over Alphabet, all segmentations,   *)
(* copy or borrow per piece, all drain schedules:                          *)
(*   Prefix    - drained ++ consumable is a prefix of the final output,    *)
(*               and finishing now yields exactly RefEncode(fed);          *)
(*   OneHole   - exactly one header placeholder is pending while the       *)
(*               encoder is open, none after finish;                       *)
(*   Lag       - produced-but-not-consumable bytes <= largest arena chunk  *)
(*               + L2 + 2, whatever the stream length;                     *)
(*   NoAssert  - none of the encoder's / iovec's assertions can fire.      *)
(***************************************************************************)
EXTENDS HcobsFormat, TLC

CONSTANTS L1, L2, R, Alphabet, MaxLen, MaxPiece, SmallCopy, OppCopy, Sizes

O == INSTANCE OwningIovecImpl WITH SMALL <- SmallCopy, OPP <- OppCopy, ChunkSizes <- Sizes, PushSizes <- {1}, MaxObjs <- 1,
                                  Budget <- 0, BugAnchor <- FALSE,
                                  obj <- <<>>, chunks <- <<>>, held <- {}, tokens <- {}, stamp <- 1, nreg <- 0, nheld <- 0,
                                  budget <- 0, abs <- <<>>

VARIABLES ob,       \* the OwningIovec record
          chs,      \* the arena chunks
          es,       \* encoder state [maxc, cur, mid, tok, bad]
          fed, drained, done
vars == <<ob, chs, es, fed, drained, done>>

\* EncoderState::new / new_subsequent: register the header placeholder
OpenChunk(o, c, first, id) ==
  LET n == IF first THEN 1 ELSE 2
      r == O!RegisterOp(o, c, n, id, [i \in 1..n |-> O!HOLE(id)])
  IN [ob |-> r.ob, chs |-> r.chunks, tok |-> r.tok]

Init ==
  LET r == OpenChunk(O!Fresh, << >>, TRUE, 1) IN
  /\ ob = r.ob /\ chs = r.chs
  /\ es = [maxc |-> L1, cur |-> 0, mid |-> FALSE, tok |-> r.tok, bad |-> FALSE, nid |-> 1]
  /\ fed = << >> /\ drained = << >> /\ done = FALSE

\* a write of payload bytes through the chosen method; returns [ob, chs]
Put(o, c, cells, copy) ==
  IF cells = << >> THEN [ob |-> o, chs |-> c]
  ELSE LET r == IF copy THEN O!PushCopy(o, c, cells) ELSE O!Push(o, c, cells) IN [ob |-> r.ob, chs |-> r.chunks]

\* encode_header + backfill_or_panic, then new_subsequent.  st: [ob, chs, es]
EndChunk(st) ==
  LET hdr == <<st.es.cur % R, st.es.cur \div R>>
      fill == SubSeq(hdr, 1, st.es.tok.len)
      ok == st.es.cur < R * R /\ (st.es.tok.len = 2 \/ hdr[2] = 0)
      b == O!BackfillOp(st.ob, st.chs, st.es.tok, fill)
      nx == OpenChunk(b.ob, b.chunks, FALSE, st.es.nid + 1)
  IN [ob |-> nx.ob, chs |-> nx.chs,
      es |-> [maxc |-> L2, cur |-> 0, mid |-> FALSE, tok |-> nx.tok, bad |-> st.es.bad \/ ~ok \/ ~b.ok, nid |-> st.es.nid + 1]]

Write(st, cells, copy) ==
  LET p == Put(st.ob, st.chs, cells, copy) IN
  [ob |-> p.ob, chs |-> p.chs,
   es |-> [st.es EXCEPT !.cur = @ + Len(cells), !.bad = @ \/ (st.es.cur + Len(cells) > st.es.maxc)]]

FindStuff(inp) == LET S == StuffPositions(inp) IN IF S = {} THEN 0 ELSE Min(S)

\* consume_once: returns [st, consumed]
ConsumeOnce(st0, input, copy) ==
  LET pre == st0.es.bad \/ ~(st0.es.cur + (IF st0.es.mid THEN 1 ELSE 0) < st0.es.maxc)
      st == [st0 EXCEPT !.es.bad = pre]
  IN IF st.es.mid /\ input[1] = FD THEN [st |-> EndChunk(st), consumed |-> 1]
     ELSE
       LET st1 == IF st.es.mid
                    THEN LET w == Write(st, <<FE>>, TRUE) IN [w EXCEPT !.es.bad = @ \/ ~(w.es.cur < w.es.maxc)]
                  ELSE st
           remaining == st1.es.maxc - st1.es.cur
           inp == SubSeq(input, 1, HMin(Len(input), remaining))
           k == FindStuff(inp)
       IN IF k # 0 THEN [st |-> EndChunk(Write(st1, SubSeq(inp, 1, k - 1), copy)), consumed |-> k + 1]
          ELSE IF Len(inp) = remaining THEN [st |-> EndChunk(Write(st1, inp, copy)), consumed |-> remaining]
          ELSE LET mid2 == inp[Len(inp)] = FE
                   n == IF mid2 THEN Len(inp) - 1 ELSE Len(inp)
                   w == Write(st1, SubSeq(inp, 1, n), copy)
               IN [st |-> [w EXCEPT !.es.mid = mid2, !.es.bad = @ \/ ~(w.es.cur + (IF mid2 THEN 1 ELSE 0) < w.es.maxc)],
                   consumed |-> Len(inp)]

RECURSIVE FeedLoop(_, _, _)
FeedLoop(st, input, copy) ==
  IF input = << >> \/ st.es.bad THEN st
  ELSE LET r == ConsumeOnce(st, input, copy) IN
       IF r.consumed > Len(input) THEN [r.st EXCEPT !.es.bad = TRUE]
       ELSE FeedLoop(r.st, SubSeq(input, r.consumed + 1, Len(input)), copy)

\* terminate: flush the held-back FE, backfill the last header
FinishOp(st) ==
  LET st1 == IF st.es.mid THEN Write(st, <<FE>>, TRUE) ELSE st
      hdr == <<st1.es.cur % R, st1.es.cur \div R>>
      ok == st1.es.cur < st1.es.maxc /\ (st1.es.tok.len = 2 \/ hdr[2] = 0)
      b == O!BackfillOp(st1.ob, st1.chs, st1.es.tok, SubSeq(hdr, 1, st1.es.tok.len))
  IN [ob |-> b.ob, chs |-> b.chunks, es |-> [st1.es EXCEPT !.bad = @ \/ ~ok \/ ~b.ok]]

Cur == [ob |-> ob, chs |-> chs, es |-> es]

Feed(piece, copy) ==
  /\ ~done /\ Len(fed) + Len(piece) <= MaxLen
  /\ LET r == FeedLoop(Cur, piece, copy) IN ob' = r.ob /\ chs' = r.chs /\ es' = r.es
  /\ fed' = fed \o piece /\ UNCHANGED <<drained, done>>

DrainSlices(k) ==      \* consumer().consume(k)
  /\ LET n == HMin(k, O!StableCount(ob))
         bytes == O!CatCellsP(chs, SubSeq(ob.slices, 1, n), 1)
     IN n > 0 /\ ob' = O!Consume(ob, n) /\ drained' = drained \o bytes
  /\ UNCHANGED <<chs, es, fed, done>>

DrainBytes(k) ==       \* consumer().advance_slices(k)
  /\ LET sb == O!StableBytesP(ob, chs)
         n == HMin(k, Len(sb))
     IN n > 0 /\ ob' = O!ConsumeBytes(ob, n) /\ drained' = drained \o SubSeq(sb, 1, n)
  /\ UNCHANGED <<chs, es, fed, done>>

Finish ==
  /\ ~done
  /\ LET r == FinishOp(Cur) IN ob' = r.ob /\ chs' = r.chs /\ es' = r.es
  /\ done' = TRUE /\ UNCHANGED <<fed, drained>>

PiecesUpTo(k) == UNION {[1..n -> Alphabet] : n \in 1..HMin(MaxPiece, k)}
Next == \/ \E piece \in PiecesUpTo(MaxLen - Len(fed)), copy \in BOOLEAN : Feed(piece, copy)
        \/ \E k \in {1, 2, 100} : DrainSlices(k) \/ DrainBytes(k)
        \/ Finish
Spec == Init /\ [][Next]_vars

\* ---- invariants -------------------------------------------------------------
NoAssert == ~es.bad
Visible == drained \o O!StableBytesP(ob, chs)
\* what is visible never contains a placeholder and is a prefix of the result of finishing now, which is canonical
Prefix ==
  LET fin == IF done THEN Cur ELSE FinishOp(Cur)
      out == drained \o O!BytesP(fin.ob, fin.chs)
  IN /\ \A i \in 1..Len(Visible) : Visible[i] >= 0
     /\ IsPrefixOf(Visible, out)
     /\ ~fin.es.bad => out = RefEncode(fed, L1, L2, R)
OneHole == LET live == {i \in 1..Len(ob.backrefs) : ob.backrefs[i].live} IN
           IF done THEN live = {} ELSE Cardinality(live) = 1
MaxCap == LET S == {chs[i].cap : i \in 1..Len(chs)} IN IF S = {} THEN 0 ELSE Max(S)
Lag == (ob.logical - ob.cbytes) - Len(O!StableBytesP(ob, chs)) <= MaxCap + L2 + 2
DoneComplete == done => Visible = RefEncode(fed, L1, L2, R)
=============================================================================
