---------------------------- MODULE OwningIovecMC ----------------------------
(* Model-checking configuration for OwningIovecImpl.tla (sequence-valued constants). *)
EXTENDS OwningIovecImpl
CS_tiny == <<4, 8>>
=============================================================================
