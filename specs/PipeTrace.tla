----------------------------- MODULE PipeTrace -----------------------------
(***************************************************************************)
(* Trace validation for the OwningIovec engine: C03 (faithful FIFO pipe),  *)
(* C04 (pending backpatches never observable), C05 (every exposed slice    *)
(* is in live memory, chunks are released only when unreachable), C20      *)
(* (clones / taken objects are independent), C10 (no leak after drop).     *)
(*                                                                         *)
(* After EVERY operation the trace carries the observation of EVERY live   *)
(* object (sizes, flags, stable slice lengths, stable bytes as a run list, *)
(* the classification of each exposed slice against the live-chunk         *)
(* registry of hook H2) and the chunk creations / drops; each is compared  *)
(* with the A-spec world of IovecPipe.tla.                                 *)
(***************************************************************************)
EXTENDS IovecPipe, TLC, Json, IOUtils

Rec == ndJsonDeserialize(IOEnv.TRACE)

VARIABLES l, failed, viol, w, live0, drift
vars == <<l, failed, viol, w, live0, drift>>

\* keep the violation set small (per property)
CapViol(v, new) == v \cup {x \in new : Cardinality({y \in v : y.prop = x.prop}) < 25}

Init == l = 1 /\ failed = FALSE /\ viol = {} /\ w = EmptyWorld /\ live0 = <<0, 0>> /\ drift = {}

When(c, S) == IF c THEN S ELSE {}
B(x) == IF x THEN 1 ELSE 0

\* Which objects may an operation change?
Targets(e) == {e.o} \cup (IF "to" \in DOMAIN e THEN {e.to} ELSE {}) \cup (IF "p" \in DOMAIN e THEN {e.p} ELSE {})

\* Complaints about one object's observation `ob` against its model state `m`.
\* involved: the object is a target of the operation (else any mismatch is an independence failure).
ObjComplaints(m, ob, involved, e) ==
  LET sbytes == RLBytes(ob.sb)
      nbuf == RLBytes(m.buf)
      hole == BeforeHole(m.buf)
      P == IF involved /\ e.ev \notin {"clone", "take", "clone_from"} THEN "C03" ELSE "C20"
      core ==
           When(ob.total # nbuf, {<<P, "total_size differs from appended minus consumed">>})
      \cup When((ob.len = 0) # (m.buf = << >>), {<<P, "len() = 0 does not coincide with an empty pipe">>})
      \cup When(ob.empty # B(ob.len = 0), {<<P, "is_empty disagrees with len">>})
      \cup When(\E i \in 1..Len(ob.lens) : ob.lens[i] = 0, {<<P, "an exposed slice is empty">>})
      \cup When(ob.dangling = 0 /\ SumSeq(ob.lens) # sbytes, {<<P, "stable slice lengths do not add up to the flattened bytes">>})
      \cup When(ob.iter_lens # ob.lens \/ ob.iovs_n # Len(ob.lens) \/ ob.into_ok # 1
                \/ ob.front # (IF ob.lens = << >> THEN 0 ELSE ob.lens[1]),
                {<<P, "stable_prefix / iteration / iovs / front / flatten_into disagree">>})
      \cup When(ob.dangling = 0 /\ sbytes <= hole /\ ob.sb # RLTake(m.buf, sbytes),
                {<<P, "readable bytes differ from the bytes appended (order / content / backfilled values)">>})
      c04 ==
           When(SumSeq(ob.lens) > hole, {<<"C04", "the stable view extends past the earliest pending placeholder">>})
      \cup When(ob.pending # B(m.pend # {}), {<<"C04", "has_pending_backrefs wrong">>})
      \cup When(ob.iovs_ok # B(m.pend = {}) \/ ob.flat_ok # B(m.pend = {}) \/ ob.stable_ok # B(m.pend = {}),
                {<<"C04", "iovs / flatten / stable_consumer report success although a placeholder is pending (or failure although none is)">>})
      \cup When(ob.stable_ok = 1 /\ (ob.stable_same # 1 \/ ob.stable_n # Len(ob.lens)),
                {<<"C04", "StableIovec's view (iovs / flatten / flatten_into) differs from the OwningIovec's">>})
      \cup When(m.pend = {} /\ SumSeq(ob.lens) # nbuf, {<<"C04", "no placeholder pending but not every buffered byte is consumable">>})
      c05 ==
           When(ob.dangling > 0 \/ \E i \in 1..Len(ob.cls) : ob.cls[i][1] = -2,
                {<<"C05", "an exposed slice does not lie in a live chunk or a lent buffer">>})
      \cup When(\E i \in 1..Len(ob.proj.slices) : ob.proj.slices[i][1] = -2,
                {<<"C05", "a buffered (not yet exposed) slice does not lie in a live chunk or a lent buffer">>})
      \* bytes that were read (and right) at the last observation are different now, although nothing was filled in: the
      \* memory behind them was handed out a second time (distinct owned allocations overlap)
      \cup (LET k == IF m.seen < sbytes THEN m.seen ELSE sbytes IN
            When(ob.dangling = 0 /\ k > 0 /\ RLTake(ob.sb, k) # RLTake(m.buf, k),
                 {<<"C05", "bytes that were readable before changed in place: their memory was handed out again">>}))
  IN core \cup c04 \cup c05
     \cup (IF ~involved /\ (core \cup c04 \cup c05) # {}
           THEN {<<"C20", "an operation on another object changed (or invalidated) this one">>} ELSE {})
     \cup (IF m.kin /\ c05 # {}
           THEN {<<"C20", "a clone / cloned original lost the memory behind its contents: " \o x[2]>> : x \in c05} ELSE {})
     \cup (IF involved /\ e.ev \in {"clone", "take", "clone_from"} /\ (c04 \cup c05) # {}
           THEN {<<"C20", "clone/take left an object in a wrong state: " \o x[2]>> : x \in c04 \cup c05} ELSE {})

Observe(w2, e) ==
  IF e.obs_panic # "" THEN {<<"C03", "accessor panic: " \o e.obs_panic>>}
  ELSE
  LET ids == {e.obs[i].o : i \in 1..Len(e.obs)}
  IN   When(ids # DOMAIN w2.objs, {<<"C03", "harness/model disagree on the live objects">>})
  \cup UNION {ObjComplaints(w2.objs[e.obs[i].o], e.obs[i], e.obs[i].o \in Targets(e), e)
              : i \in {j \in 1..Len(e.obs) : e.obs[j].o \in DOMAIN w2.objs}}
  \cup UNION {(LET hd == e.held[i] IN
                 When(hd.cls[1] = -2, {<<"C05", "a held AnchoredSlice points into released memory">>})
            \cup When(hd.cls[1] # -2 /\ hd.h \in DOMAIN w2.held /\ hd.sb # w2.held[hd.h],
                      {<<"C05", "the bytes of a held AnchoredSlice changed">>}))
              : i \in 1..Len(e.held)}
  \cup When(\E i \in 1..Len(e.chunks) : e.chunks[i][1] = 0 /\ e.chunks[i][4] > 0,
            {<<"C05", "an arena chunk was released while a buffered slice or AnchoredSlice still points into it">>})

\* lens of the model follow the observation (pre-state of the next consuming call)
WithLens(w2, e) ==
  IF e.obs_panic # "" THEN w2
  ELSE [w2 EXCEPT !.objs = [o \in DOMAIN w2.objs |->
          LET I == {i \in 1..Len(e.obs) : e.obs[i].o = o} IN
          IF I = {} THEN w2.objs[o]
          ELSE LET ob == e.obs[CHOOSE i \in I : TRUE]
                   n == RLBytes(ob.sb)
               IN [w2.objs[o] EXCEPT !.lens = ob.lens,
                                     !.seen = IF ob.dangling = 0 /\ n <= RLBytes(w2.objs[o].buf) /\ ob.sb = RLTake(w2.objs[o].buf, n)
                                              THEN n ELSE 0]]]

ConsumerComplaints(e) ==
  IF e.skip = 1 THEN {} ELSE
  LET m == w.objs[e.o]
      k == RemovedBytes(m, e)
  IN   When(e.ret # ExpectedRet(m, e), {<<"C03", "a consuming call reports a different amount than it removed / could remove">>})
  \cup When(k <= BeforeHole(m.buf) /\ e.req # RLTake(m.buf, k),
            {<<"C03", "the bytes handed to the consumer differ from the bytes appended">>})
  \cup When(k > BeforeHole(m.buf), {<<"C04", "consumption crossed a pending placeholder">>})
  \cup When(m.pend # {} /\ e.ret > ExpectedRet(m, e),
            {<<"C04", "a consuming call went beyond the stable view while a placeholder is pending">>})
  \cup When(e.ev = "read" /\ e.got # e.req, {<<"C03", "Read delivered bytes other than the consumable prefix">>})

Step(e) ==
  IF e.ev = "bad_backfill" THEN
      \* a backfill of the wrong size must panic and change nothing: the placeholder stays pending (for ever)
      IF e.skip = 1 THEN [w |-> WithLens(w, e), bad |-> Observe(w, e)]
      ELSE [w |-> WithLens(w, e),
            bad |-> When(e.panic = "", {<<"C04", "a backfill of the wrong size did not panic">>}) \cup Observe(w, e)]
  ELSE IF e.ev = "bad_pop" THEN
      \* pop_front with an empty stable prefix: documented to panic, and nothing may be removed
      [w |-> WithLens(w, e),
       bad |-> When(e.panic = "", {<<"C03", "pop_front removed a slice although nothing was consumable (it is documented to panic)">>,
                                   <<"C04", "pop_front consumed a slice that holds a pending placeholder">>}) \cup Observe(w, e)]
  ELSE IF e.panic # "" THEN
      \* C03 quantifies over every sequence of producer and consumer operations: a panic on a valid one breaks it,
      \* whatever else it breaks
      [w |-> w, bad |-> {<<p, "panic on a valid operation sequence (" \o e.ev \o "): " \o e.panic>> :
                           p \in {"C03"} \cup (IF e.ev \in {"register", "backfill"} THEN {"C04"}
                                               ELSE IF e.ev \in {"clone", "take", "clone_from"} THEN {"C20"} ELSE {})
                                      \* (an operation that panics on a clone / a cloned original / a taken value: C20's "fully usable")
                                      \cup (IF "o" \in DOMAIN e /\ Live(w, e.o) /\ w.objs[e.o].kin THEN {"C20"} ELSE {})}]
  ELSE IF e.err # "" THEN [w |-> w, bad |-> {<<"C03", "operation failed: " \o e.err>>}]
  ELSE IF ~(e.ev \in {"new", "from_slices", "held_op"}) /\ "o" \in DOMAIN e /\ e.skip = 0 /\ ~Live(w, e.o)
    THEN [w |-> w, bad |-> {<<"C03", "harness executed an operation on an object the model does not have">>}]
  ELSE
    LET pre == IF IsConsumer(e) THEN ConsumerComplaints(e) ELSE {}
        w2 == IF IsConsumer(e) THEN Consume(w, e) ELSE Produce(w, e)
    IN [w |-> WithLens(w2, e), bad |-> pre \cup Observe(w2, e)]

(***************************************************************************)
(* The structural invariants of the I-spec (OwningIovecImpl.tla: AnchorSum, *)
(* BackrefTargets, the counters) evaluated on the REAL internal state, as   *)
(* hook H2 projects it after every operation.  Internal representation, not *)
(* a listed property: disagreements are reported as DRIFT.                  *)
(***************************************************************************)
ProjComplaints(ob) ==
  LET p == ob.proj
      ns == Len(p.slices)
      lensum == SumSeq([i \in 1..ns |-> p.slices[i][3]])
  IN   When(SumSeq([i \in 1..Len(p.anchors) |-> p.anchors[i][1]]) # ns,
            {"AnchorSum: the anchors' counts do not add up to the number of buffered slices"})
  \cup When((ns = 0) # (p.anchors = << >>), {"slices are empty iff anchors are"})
  \cup When(p.logical - p.consumed # ob.total \/ lensum # ob.total,
            {"logical - consumed size / the buffered slice lengths differ from total_size"})
  \cup When(\E i \in 1..Len(p.backrefs) :
              LET b == p.backrefs[i]
                  idx == b[2] - p.cslices + 1
              IN ~(idx >= 1 /\ idx <= ns) \/ (idx >= 1 /\ idx <= ns /\ b[3] + b[4] > p.slices[idx][3]) \/ b[1] > p.logical,
            {"BackrefTargets: a pending backref points outside the buffered slices / outside its slice"})
  \cup When(\E i \in 1..(Len(p.backrefs) - 1) : p.backrefs[i][1] >= p.backrefs[i + 1][1],
            {"pending backrefs are not sorted by logical end"})
  \cup When((Len(p.backrefs) > 0) # (ob.pending = 1), {"has_pending_backrefs disagrees with the backref deque"})
  \cup When(p.cache # << >> /\ ~(0 <= p.cache[2] /\ p.cache[2] <= p.cache[3]), {"the allocation cache's bump pointer is outside its chunk"})

DriftOf(e) ==
  IF "obs" \notin DOMAIN e \/ e.obs_panic # "" THEN {}
  ELSE UNION {{[run |-> e.run, line |-> l, what |-> x] : x \in ProjComplaints(e.obs[i])} : i \in 1..Len(e.obs)}

Next ==
  /\ l <= Len(Rec)
  /\ l' = l + 1
  /\ LET e == Rec[l] IN
     IF e.ev = "reset_after_crash" THEN      \* the process died in this run (reported by the orchestrator)
        /\ failed' = TRUE /\ UNCHANGED <<w, viol, live0, drift>>
     ELSE IF e.ev = "reset" THEN
        /\ w' = EmptyWorld /\ failed' = FALSE /\ live0' = e.live /\ UNCHANGED <<viol, drift>>
     ELSE IF e.ev = "end" THEN
        /\ UNCHANGED <<w, failed, live0, drift>>
        /\ viol' = CapViol(viol, IF e.live # live0
                                 THEN {[run |-> e.run, line |-> l, prop |-> "C10",
                                        what |-> "arena chunks still live after every object was dropped"]}
                                 ELSE {})
     ELSE IF failed THEN UNCHANGED <<w, failed, viol, live0, drift>>
     ELSE LET r == Step(e) IN
          /\ w' = r.w
          /\ failed' = (r.bad # {})
          /\ live0' = live0
          /\ drift' = (IF Cardinality(drift) >= 20 \/ r.bad # {} \/ e.panic # "" THEN drift ELSE drift \cup DriftOf(e))
          /\ viol' = CapViol(viol, {[run |-> e.run, line |-> l, prop |-> x[1], what |-> x[2]] : x \in r.bad})

Spec == Init /\ [][Next]_vars

Done == (l = Len(Rec) + 1) =>
          /\ PrintT(<<"TV-VIOL", ToJson(viol)>>)
          /\ PrintT(<<"TV-DRIFT", ToJson(drift)>>)
          /\ PrintT(<<"TV-DONE", Len(Rec)>>)
=============================================================================
