------------------------------ MODULE ReadNInd ------------------------------
(* C17, unbounded part: for any count, any attempt limit and any reader     *)
(* behaviour, the retry loop of read_n calls the reader at most             *)
(* max_attempts times and never has more than count bytes; each call asks   *)
(* for exactly count - got >= 1 bytes.  Inductive invariant checked         *)
(* symbolically by Apalache (unbounded integers), same step as LoopStep of  *)
(* ReadN.tla with the reader's response left nondeterministic.              *)
EXTENDS Integers

VARIABLES
  \* @type: Int;
  count,
  \* @type: Int;
  attempts,
  \* @type: Int;
  i,
  \* @type: Int;
  got,
  \* @type: Bool;
  done,
  \* @type: Int;
  lastReq

Init == count \in Nat /\ attempts \in Nat /\ count >= 1 /\ attempts >= 1 /\ i = 0 /\ got = 0 /\ done = FALSE /\ lastReq = 0

IndInv == /\ count >= 1 /\ attempts >= 1 /\ i >= 0 /\ i <= attempts /\ got >= 0 /\ got <= count
          /\ (~done => got < count)                  \* while looping there is still something to ask for
          /\ (i > 0 => (lastReq >= 1 /\ lastReq <= count))
IndInit == count \in Nat /\ attempts \in Nat /\ i \in Nat /\ got \in Nat /\ done \in BOOLEAN /\ lastReq \in Nat /\ IndInv

\* one iteration: the reader is asked for count - got bytes and answers with a delivery (1..asked), EOF, EINTR or a hard error
Step ==
  /\ ~done /\ i < attempts
  /\ i' = i + 1 /\ lastReq' = count - got
  /\ \/ \E d \in Nat : d >= 1 /\ d <= count - got /\ got' = got + d /\ done' = (got + d = count)
     \/ got' = got /\ done' = TRUE          \* end of file or a hard error
     \/ got' = got /\ done' = FALSE         \* Interrupted
  /\ UNCHANGED <<count, attempts>>
Stutter == (done \/ i = attempts) /\ UNCHANGED <<count, attempts, i, got, done, lastReq>>
Next == Step \/ Stutter
=============================================================================
