----------------------------- MODULE ArenaSizes -----------------------------
(* Growth of the specification beyond the listed properties: the arena's   *)
(* chunk-size policy (ByteArena::find_hint_size) with the REAL constants,  *)
(* as the operator HintSize of OwningIovecImpl.tla, checked by TLC against *)
(* the expectations the crate's own unit tests state and against the       *)
(* properties the allocator relies on (hint >= len; growth is strictly     *)
(* monotone below the cap; the cap is sticky).                             *)
EXTENDS Naturals, Sequences, TLC

RealSizes == <<4096, 8192, 16384, 32768, 65536, 131072, 262144, 524288, 1048576>>

I == INSTANCE OwningIovecImpl WITH SMALL <- 64, OPP <- 256, ChunkSizes <- RealSizes, PushSizes <- {1}, MaxObjs <- 1,
                                  Budget <- 0, BugAnchor <- FALSE,
                                  obj <- <<>>, chunks <- <<>>, held <- {}, tokens <- {}, stamp <- 1, nreg <- 0, nheld <- 0,
                                  budget <- 0, abs <- <<>>

Max == 1048576
\* the crate's unit tests (test_size_sequence_large / _grow_capped / _grow)
ASSUME I!HintSize(2000000, 4096) = 2002944
ASSUME I!HintSize(2 * 1024 * 1024, 4000000) = 2 * 1024 * 1024
ASSUME I!HintSize(1, Max - 1) = Max /\ I!HintSize(1, Max) = Max /\ I!HintSize(4096, 2000000) = Max
ASSUME I!HintSize(1, 0) = 4096
\* what the allocator relies on, for a grid of lengths and previous capacities
Lens == {1, 63, 64, 65, 4095, 4096, 4097, 8192, 100000, 524288, 1048575, 1048576, 1048577, 3000000}
Prevs == {0, 1, 4096, 8192, 65536, 524288, 1048575, 1048576, 2002944}
ASSUME \A len \in Lens, prev \in Prevs :
          /\ I!HintSize(len, prev) >= len                                          \* assert!(hint >= len)
          /\ (len < Max /\ prev < Max) => I!HintSize(len, prev) > prev                \* "we must grow if we get here"
          /\ (len < Max /\ prev >= Max) => I!HintSize(len, prev) = Max                \* the cap is sticky
          /\ len >= Max => I!HintSize(len, prev) % 4096 = 0                          \* large requests are rounded to 4 KiB
VARIABLE x
Init == x = 0
Next == UNCHANGED x
=============================================================================
