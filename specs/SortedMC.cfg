SPECIFICATION Spec
CONSTANTS
  Keys = {1,2,3,4,5,6,7,8}
  Mode = "item"
  BugF2 = FALSE
INVARIANTS Refines Rep Waste
CHECK_DEADLOCK FALSE
