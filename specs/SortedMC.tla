------------------------------ MODULE SortedMC ------------------------------
(* Design model checking for C16: the transcribed SortedDeque (on the      *)
(* transcribed SlidingDeque) refines the ordered-map A-spec in lockstep.   *)
EXTENDS Sorted, TLC
CONSTANTS Keys, Mode, BugF2
VARIABLES s, live, ok
vars == <<s, live, ok>>

Events == [ev : {"push"}, k : Keys, v : {0, 1}]
     \cup [ev : {"find", "remove"}, k : Keys, v : {1}]
     \cup [ev : {"pop_first", "pop_last", "clear"}]

Step(e) == LET ir == SApply(s, e, Mode, BugF2)
               ar == OApply(live, e, Mode)
           IN /\ s' = ir.st
              /\ live' = ar.st
              /\ ok' = (ir.ret = ar.ret /\ ir.panic = ar.panic)

Init == s = IInit /\ live = OInit /\ ok = TRUE
Next == \E e \in Events : Step(e)
Spec == Init /\ [][Next]_vars

Refines == ok /\ SLive(s) = live
Rep     == SCheckRep(s) /\ SSorted(Mode, s) /\ CheckRep(s)
Waste   == WasteOK(s.k, Len(s.c))
=============================================================================
