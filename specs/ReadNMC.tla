------------------------------ MODULE ReadNMC ------------------------------
(* Design model checking for C17: for ALL scripts up to MaxScript over the *)
(* response alphabet, all counts and attempt limits, the transcribed retry *)
(* loop yields exactly the declared result, calls the reader at most       *)
(* `attempts` times and never asks for more than `count` bytes in total.   *)
EXTENDS ReadN, TLC
CONSTANTS MaxScript, MaxCount, MaxAttempts
Responses == {1, 2, 3, 0, -1, -2, -3}
VARIABLE c
Scripts == UNION {[1..n -> Responses] : n \in 0..MaxScript}
Init == \E s \in Scripts, cnt \in 0..MaxCount, a \in 1..MaxAttempts : c = [script |-> s, count |-> cnt, attempts |-> a]
Next == UNCHANGED c
Spec == Init /\ [][Next]_c

Impl == ImplResult(c.script, c.count, c.attempts)
Agrees == Impl = Expected(c.script, c.count, c.attempts)
Bounded == /\ Len(Impl.calls) <= c.attempts
           /\ Impl.got <= c.count
           /\ \A i \in 1..Len(Impl.calls) : Impl.calls[i] >= 1 /\ Impl.calls[i] <= c.count
           /\ c.count = 0 => Impl.calls = << >>
=============================================================================
