--------------------------- MODULE FootprintTrace ---------------------------
(* Trace validation for the streaming half of C10 (bounded arena footprint *)
(* while the consumer keeps draining) and for C09's lag bound on long      *)
(* streams.  Samples (bytes streamed, live arena bytes, total_size, stable *)
(* bytes) recorded from the real Encoder / Encoder->Decoder pipeline /     *)
(* StreamReader are checked against:                                       *)
(*   Footprint: live - live0 <= Bound * objects at every sample, and the   *)
(*   maximum over the second half of the run does not exceed the maximum   *)
(*   over the first half (after a warm-up of at least Warm bytes, only on  *)
(*   runs of at least 4 * Warm bytes) by more than Slack - an honest       *)
(*   constant does not grow, a leak grows linearly;                        *)
(*   Lag: total_size - stable <= one arena chunk + one HCOBS chunk + 2     *)
(*   for the encoder, 0 for the decoder;  NoLeak at the end.               *)
EXTENDS Naturals, Integers, Sequences, FiniteSets, TLC, Json, IOUtils

CONSTANTS Bound, Slack, Warm, MaxArenaChunk, L2

Rec == ndJsonDeserialize(IOEnv.TRACE)

VARIABLES l, viol, st
vars == <<l, viol, st>>

CapViol(v, new) == v \cup {x \in new : Cardinality({y \in v : y.prop = x.prop}) < 25}

Init == l = 1 /\ viol = {} /\ st = [total |-> 0, objects |-> 1, live0 |-> 0, chunks0 |-> 0, max1 |-> 0, max2 |-> 0]

When(c, S) == IF c THEN S ELSE {}
Max2(a, b) == IF a >= b THEN a ELSE b

Sample(s, e) ==
  LET used == Max2(e.live, e.peak) - s.live0
      \* the arenas (encoder, decoder, producer) first grow their chunk size geometrically to 1 MiB: that is warm-up,
      \* not a leak.  Halves are only compared on runs long enough to have a steady state.
      warm == IF s.total \div 4 > Warm THEN s.total \div 4 ELSE Warm
      half == IF s.total \div 2 > 2 * Warm THEN s.total \div 2 ELSE 2 * Warm
      s1 == [s EXCEPT !.max1 = IF e.streamed >= warm /\ e.streamed < half THEN Max2(@, used) ELSE @,
                      !.max2 = IF e.streamed >= half THEN Max2(@, used) ELSE @]
  IN [st |-> s1,
      bad |->
           When(used > Bound * s.objects,
                {<<"C10", "live arena bytes exceed the constant bound while the consumer keeps draining">>})
      \cup When(e.who = "enc" /\ e.total - e.stable > MaxArenaChunk + L2 + 2,
                {<<"C09", "encoder lag exceeds one arena chunk + one HCOBS chunk + header on a long stream">>})
      \cup When(e.who = "dec" /\ (e.total # e.stable \/ e.pending = 1),
                {<<"C09", "decoder has non-consumable output on a long stream">>})
      \cup When(e.who = "drained" /\ e.stable # 0,
                {<<"C09", "draining everything consumable left consumable bytes behind">>})]

Next ==
  /\ l <= Len(Rec)
  /\ l' = l + 1
  /\ LET e == Rec[l] IN
     IF e.ev = "reset" THEN
        /\ st' = [total |-> e.total, objects |-> e.objects, live0 |-> e.live, chunks0 |-> e.chunks, max1 |-> 0, max2 |-> 0]
        /\ UNCHANGED viol
     ELSE IF e.ev = "reset_after_crash" THEN UNCHANGED <<st, viol>>
     ELSE IF e.ev = "roundtrip" THEN
        \* a long stream through Encoder -> Decoder with both sides drained all along: what comes out is what went in
        LET bad == When(e.ok # 1, {<<"C01", "long stream: the Decoder rejected the Encoder's output">>,
                                   <<"C09", "long stream: drained Encoder output ++ finish is not a decodable whole">>})
              \cup When(e.ok = 1 /\ (e.same_len # 1 \/ e.same_digest # 1),
                        {<<"C01", "long stream: the decoded bytes differ from the bytes fed to the Encoder">>,
                         <<"C09", "long stream: bytes were lost, duplicated, reordered or changed between drains and finish">>})
        IN /\ viol' = CapViol(viol, {[run |-> e.run, line |-> l, prop |-> w[1], what |-> w[2]] : w \in bad})
           /\ UNCHANGED st
     ELSE IF e.ev = "lengths" THEN
        \* C02 on a long stream: no stuff sequence anywhere in the drained output (incl. across drains) and
        \* |output| <= len + 1 + 2 * ceil(len / 64008), (lengths are logged as 20-bit limbs; these streams stay below 2^31 bytes)
        LET len == e.in_hi * 1048576 + e.in_lo              \* streams here are < 2^31 bytes
            outlen == e.out_hi * 1048576 + e.out_lo
            chunks == (len + L2 - 1) \div L2
            bad == When(e.stuff > 0, {<<"C02", "the drained encoder output of a long stream contains FE FD">>})
              \cup When(outlen > len + 1 + 2 * chunks,
                        {<<"C02", "encoder output of a long stream is longer than len + 1 + 2*ceil(len/64008)">>})
              \cup When(e.pending = 1, {<<"C09", "finish left a placeholder pending">>})
        IN /\ st' = st
           /\ viol' = CapViol(viol, {[run |-> e.run, line |-> l, prop |-> x[1], what |-> x[2]] : x \in bad})
     ELSE IF e.ev = "sample" THEN
        LET r == Sample(st, e) IN
        /\ st' = r.st
        /\ viol' = CapViol(viol, {[run |-> e.run, line |-> l, prop |-> x[1], what |-> x[2]] : x \in r.bad})
     ELSE \* end
        /\ st' = st
        /\ viol' = CapViol(viol, {[run |-> e.run, line |-> l, prop |-> x[1], what |-> x[2]] : x \in
               When(e.panic # "", {<<"C10", "panic while streaming: " \o e.panic>>})
          \cup When(e.panic = "" /\ (e.live # st.live0 \/ e.chunks # st.chunks0),
                    {<<"C10", "arena chunks still live after the codec objects were dropped">>})
          \cup When(e.panic = "" /\ st.total >= 4 * Warm /\ st.max1 > 0 /\ st.max2 > st.max1 + Slack,
                    {<<"C10", "live arena bytes keep growing with the amount of data streamed">>})})

Spec == Init /\ [][Next]_vars

Done == (l = Len(Rec) + 1) =>
          /\ PrintT(<<"TV-VIOL", ToJson(viol)>>)
          /\ PrintT(<<"TV-DRIFT", ToJson({})>>)
          /\ PrintT(<<"TV-DONE", Len(Rec)>>)
=============================================================================
