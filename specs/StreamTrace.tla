----------------------------- MODULE StreamTrace -----------------------------
(* Trace validation for C08 (StreamChunker) and C06 (StreamReader): the    *)
(* chunks / records recorded from the real code, driven over arbitrary     *)
(* streams with scripted short reads, EINTR injection, block sizes and     *)
(* arena states, are checked against the A-spec of StreamFraming.tla.      *)
(* The format constants are given literally (252, 64008, 253).             *)
EXTENDS FiniteSets, StreamFraming, Json, IOUtils

Rec == ndJsonDeserialize(IOEnv.TRACE)

VARIABLES l, failed, viol, st
vars == <<l, failed, viol, st>>

\* keep the violation set small (per property): a broken build can fail tens of thousands of runs
CapViol(v, new) == v \cup {x \in new : Cardinality({y \in v : y.prop = x.prop}) < 25}

Init == l = 1 /\ failed = FALSE /\ viol = {} /\
        st = [kind |-> "none", s |-> << >>, max |-> -1, limit |-> -1, skipAt |-> {}, stopAt |-> {}, cs |-> << >>, recs |-> << >>,
              lso |-> 0, live0 |-> 0, chunks0 |-> 0]

When(c, S) == IF c THEN S ELSE {}
V(p, w) == {<<p, w>>}

Step(s, e) ==
  CASE e.ev = "chunk" ->
         IF e.panic # "" THEN [st |-> s, bad |-> V("C08", "pump panicked: " \o e.panic)]
         ELSE IF e.err # "" THEN [st |-> s, bad |-> V("C08", "pump failed although the reader only did short reads / EINTR: " \o e.err)]
         ELSE [st |-> [s EXCEPT !.cs = Append(@, [k |-> e.k, off |-> e.off, data |-> e.data])],
               \* the chunker hands bytes through verbatim: a Data chunk that ends at a position of the stream but holds other
               \* bytes than the stream has there was (re-)read from memory that was not the chunker's any more
               bad |-> When(e.k = "D" /\ e.off <= Len(s.s) /\ Len(e.data) <= e.off
                            /\ e.data # SubSeq(s.s, e.off - Len(e.data) + 1, e.off),
                            V("C05", "the bytes of a Data chunk are not the bytes of the stream at its position (memory reused or released under the StreamChunker)")
                            \cup V("C08", "a Data chunk does not hold the bytes of the stream at its position (the chunks do not tile the stream)"))]
    [] e.ev = "recheck" ->      \* after the arena moved on: every Data chunk handed out is still alive and unchanged
         LET ds == SelectSeq(s.cs, LAMBDA c : c.k = "D") IN
         [st |-> s,
          bad |-> When(e.dangling > 0, V("C05", "a Data chunk handed out by the StreamChunker no longer lies in live arena memory"))
             \cup When(e.dangling = 0 /\ e.kept = 1 /\ e.chunks # [i \in 1..Len(ds) |-> ds[i].data],
                       V("C05", "the bytes of a Data chunk changed after it was handed out"))]
    [] e.ev = "record" ->
         [st |-> [s EXCEPT !.recs = Append(@, [data |-> e.data, a |-> e.a, b |-> e.b]), !.lso = e.lso],
          bad |-> When(e.dangling > 0, V("C05", "a slice of a returned record does not lie in live arena memory"))
             \cup When(e.dangling = 0 /\ e.flat_ok # 1, V("C06", "returned record has a pending backpatch"))
             \cup When(e.lso < s.lso, V("C06", "last_sentinel_offset decreased"))
             \cup When(e.lso > 0 /\ ~(e.lso + 2 <= Len(s.s) /\ s.s[e.lso + 1] = FE /\ s.s[e.lso + 2] = FD),
                       V("C06", "last_sentinel_offset is not the start of a stuff sequence"))]
    [] e.ev = "none" ->
         [st |-> s,
          bad |-> When(e.panic # "", V("C06", "StreamReader panicked: " \o e.panic))
             \cup When(e.err # "", V("C06", "StreamReader failed although the reader only did short reads / EINTR: " \o e.err))]
    [] e.ev = "end" ->
         [st |-> s,
          bad |-> IF s.kind = "chunker"
                  THEN {<<"C08", w>> : w \in TileComplaints(s.cs, s.s)}
                       \cup When(e.eof # 1, V("C08", "Eof not reached (no progress)"))
                  ELSE When(e.eof = 1 /\ s.recs # RecordsJ(s.s, [maxSize |-> s.max, limit |-> s.limit, skipAt |-> s.skipAt,
                                                                    stopAt |-> s.stopAt], 252, 64008, 253),
                            V("C06", "returned records differ from the valid delimited records of the stream"))]
    [] e.ev = "dropped" ->
         [st |-> s,
          bad |-> When(e.live # s.live0 \/ e.chunks # s.chunks0,
                       V("C10", "arena chunks still live after StreamChunker/StreamReader and all chunks were dropped"))]

Next ==
  /\ l <= Len(Rec)
  /\ l' = l + 1
  /\ LET e == Rec[l] IN
     IF e.ev = "reset_after_crash" THEN      \* the process died in this run (reported by the orchestrator)
        /\ failed' = TRUE /\ UNCHANGED <<st, viol>>
     ELSE IF e.ev = "reset" THEN
        /\ st' = [kind |-> e.kind, s |-> e.stream, max |-> e.max, limit |-> e.limit,
                  skipAt |-> {e.skip_at[i] : i \in 1..Len(e.skip_at)}, stopAt |-> {e.stop_at[i] : i \in 1..Len(e.stop_at)}, cs |-> << >>,
                  recs |-> << >>, lso |-> 0, live0 |-> e.live, chunks0 |-> e.chunks]
        /\ failed' = FALSE /\ UNCHANGED viol
     ELSE IF failed /\ e.ev # "dropped" THEN UNCHANGED <<st, failed, viol>>
     ELSE LET r == Step(st, e) IN
          /\ st' = r.st
          /\ failed' = (failed \/ r.bad # {})
          /\ viol' = CapViol(viol, {[run |-> e.run, line |-> l, prop |-> w[1], what |-> w[2]] : w \in r.bad})

Spec == Init /\ [][Next]_vars

Done == (l = Len(Rec) + 1) =>
          /\ PrintT(<<"TV-VIOL", ToJson(viol)>>)
          /\ PrintT(<<"TV-DRIFT", ToJson({})>>)
          /\ PrintT(<<"TV-DONE", Len(Rec)>>)
=============================================================================
