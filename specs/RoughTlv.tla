------------------------------ MODULE RoughTlv ------------------------------
(***************************************************************************)
(* A-spec for C11 / C12: the Roughtime tag-length-value layout as a pure   *)
(* definition over byte strings, and (below) the I-spec: a transcription   *)
(* of MessageView's accessors (rough_tlv/src/decoder.rs).                  *)
(*                                                                         *)
(* A message with N pairs:  u32 N | N-1 u32 cumulative end offsets |       *)
(* N u32 tags (non-decreasing) | values concatenated.   All u32 little     *)
(* endian.  TLC integers are 32-bit signed, so a word is kept as           *)
(* [hi, lo] (16 bits each) and compared lexicographically; arithmetic is   *)
(* only done on words whose hi half is 0.                                  *)
(***************************************************************************)
EXTENDS Naturals, Integers, Sequences, FiniteSets

TMin(a, b) == IF a <= b THEN a ELSE b

Word(b, i) ==   \* the little-endian word starting at 1-based position i
  [hi |-> b[i + 2] + 256 * b[i + 3], lo |-> b[i] + 256 * b[i + 1]]
WLeq(x, y) == x.hi < y.hi \/ (x.hi = y.hi /\ x.lo <= y.lo)
Small(x) == x.hi = 0
WordBytes(n) == <<n % 256, (n \div 256) % 256, (n \div 65536) % 256, (n \div 16777216) % 256>>   \* n < 2^31

\* header accessors (only meaningful once the size checks passed)
Count(b) == Word(b, 1)
Offset(b, j) == Word(b, 1 + 4 * j)               \* j in 1..N-1: end offset of value j-1 (0-based values)
TagAt(b, n, i) == Word(b, 1 + 4 * n + 4 * i)     \* i in 0..n-1

\* C12: MessageView::new accepts exactly these byte strings
Accepts(b) ==
  /\ Len(b) >= 4
  /\ LET c == Count(b) IN
     /\ Small(c) /\ 8 * c.lo <= Len(b)
     /\ LET n == c.lo IN
        /\ \A j \in 1..(n - 2) : WLeq(Offset(b, j), Offset(b, j + 1))
        /\ \A i \in 0..(n - 2) : WLeq(TagAt(b, n, i), TagAt(b, n, i + 1))
        /\ n >= 2 => (Small(Offset(b, n - 1)) /\ 8 * n + Offset(b, n - 1).lo <= Len(b))

NumPairs(b) == Count(b).lo

\* value i (0-based) of an accepted message, as [a, z]: 1-based first position and one-past-last
ValueRange(b, i) ==
  LET n == NumPairs(b)
      hdr == 8 * n
      s == IF i = 0 THEN 0 ELSE Offset(b, i).lo
      e == IF i = n - 1 THEN Len(b) - hdr ELSE Offset(b, i + 1).lo
  IN [a |-> hdr + s + 1, z |-> hdr + e + 1]
Value(b, i) == LET r == ValueRange(b, i) IN SubSeq(b, r.a, r.z - 1)
TagBytes(b, i) == SubSeq(b, 1 + 4 * NumPairs(b) + 4 * i, 4 * NumPairs(b) + 4 * i + 4)

\* the pairs of an accepted message, in order: <<tag bytes, value bytes>>
Pairs(b) == [i \in 1..NumPairs(b) |-> <<TagBytes(b, i - 1), Value(b, i - 1)>>]

\* the values tile the bytes after the header exactly and in order
RECURSIVE ConcatValues(_, _)
ConcatValues(ps, i) == IF i > Len(ps) THEN << >> ELSE ps[i][2] \o ConcatValues(ps, i + 1)
Tiles(b) == NumPairs(b) >= 1 => ConcatValues(Pairs(b), 1) = SubSeq(b, 8 * NumPairs(b) + 1, Len(b))

\* admissible answers of a tag lookup: any value stored under exactly that tag; << >>-marker if absent
Lookups(b, tag) == {Pairs(b)[i][2] : i \in {j \in 1..NumPairs(b) : Pairs(b)[j][1] = tag}}

(***************************************************************************)
(* Encoding (C11).  A pair is <<tag (number < 2^31), value bytes>>.        *)
(***************************************************************************)
RECURSIVE InsertSorted(_, _)
InsertSorted(sorted, p) ==      \* after every element with tag <= p's tag (stable)
  IF sorted = << >> THEN <<p>>
  ELSE IF sorted[1][1] <= p[1] THEN <<sorted[1]>> \o InsertSorted(Tail(sorted), p)
  ELSE <<p>> \o sorted
RECURSIVE SortStable(_)
SortStable(ps) == IF ps = << >> THEN << >> ELSE InsertSorted(SortStable(SubSeq(ps, 1, Len(ps) - 1)), ps[Len(ps)])

RECURSIVE CumOffsets(_, _, _)
CumOffsets(ps, i, acc) ==     \* offsets words for values 1..N-1 (cumulative ends of values 0..N-2)
  IF i >= Len(ps) THEN << >>
  ELSE WordBytes(acc + Len(ps[i][2])) \o CumOffsets(ps, i + 1, acc + Len(ps[i][2]))
RECURSIVE TagWords(_, _)
TagWords(ps, i) == IF i > Len(ps) THEN << >> ELSE WordBytes(ps[i][1]) \o TagWords(ps, i + 1)

EncodeSorted(ps) == WordBytes(Len(ps)) \o CumOffsets(ps, 1, 0) \o TagWords(ps, 1) \o ConcatValues(ps, 1)
Encode(ps) == EncodeSorted(SortStable(ps))
RECURSIVE SumLens(_, _)
SumLens(ps, i) == IF i > Len(ps) THEN 0 ELSE Len(ps[i][2]) + SumLens(ps, i + 1)
EncLen(ps) == 4 + (IF Len(ps) = 0 THEN 0 ELSE 4 * (Len(ps) - 1)) + 4 * Len(ps) + SumLens(ps, 1)
TagsSorted(ps) == \A i \in 1..(Len(ps) - 1) : ps[i][1] <= ps[i + 1][1]

(***************************************************************************)
(* Size limits of C11, on lengths given as limbs [hi, lo] base 2^20 (they  *)
(* reach 2^31 and beyond, TLC integers do not).                            *)
(***************************************************************************)
LB == 1048576
LNorm(x) == [hi |-> x.hi + x.lo \div LB, lo |-> x.lo % LB]
LAdd(x, y) == LNorm([hi |-> x.hi + y.hi, lo |-> x.lo + y.lo])
LGt(x, y) == x.hi > y.hi \/ (x.hi = y.hi /\ x.lo > y.lo)
I32MAX == [hi |-> 2047, lo |-> 1048575]
RECURSIVE LSum(_, _)
LSum(ls, i) == IF i > Len(ls) THEN [hi |-> 0, lo |-> 0] ELSE LAdd(ls[i], LSum(ls, i + 1))
\* a list of n pairs whose value lengths are ls (limbs) must be rejected iff ...
TooLarge(ls) ==
  LET n == Len(ls)
      hdr == [hi |-> 0, lo |-> 4 + (IF n = 0 THEN 0 ELSE 4 * (n - 1)) + 4 * n]
  IN \/ \E i \in 1..n : LGt(ls[i], I32MAX)
     \/ LGt(LAdd(hdr, LSum(ls, 1)), I32MAX)

(***************************************************************************)
(* I-spec: MessageView accessors transcribed (on an accepted message b).   *)
(* BugF3 = TRUE: get_value before fix 6f3d3b6.                             *)
(***************************************************************************)
INone == <<-1>>       \* "None"

IOffsetsLen(b) == LET n == NumPairs(b) IN (IF 4 * n >= 4 THEN 4 * n ELSE 4) \div 4 - 1     \* slice[4..max(4n,4)] / 4

IGetValue(b, index, BugF3) ==
  LET n == NumPairs(b)
      hdr == 8 * n
      olen == IOffsetsLen(b)
  IN IF ~BugF3 /\ index >= n THEN INone
     ELSE IF index # olen /\ ~(index < olen) THEN INone              \* offsets.get(index)?
     ELSE IF index # 0 /\ ~(index - 1 < olen) THEN INone             \* offsets.get(index - 1)?
     ELSE LET e == IF index = olen THEN Len(b) ELSE Offset(b, index + 1).lo + hdr
              s == hdr + (IF index = 0 THEN 0 ELSE Offset(b, index).lo)
          IN IF s > e \/ e > Len(b) THEN <<-2>>                       \* slice index panic
             ELSE SubSeq(b, s + 1, e)

IGet(b, index, BugF3) ==
  IF index >= NumPairs(b) THEN INone                                  \* tags().get(index)?
  ELSE LET v == IGetValue(b, index, BugF3) IN IF v = INone THEN INone ELSE <<TagBytes(b, index), v>>

IIter(b) == Pairs(b)      \* iter(): zip(tags, starts, ends) -- same index arithmetic as the definition
=============================================================================
