---------------------------- MODULE HcobsFormat ----------------------------
(***************************************************************************)
(* A-spec for C01, C02, C07 (and the oracle of C09, C06, C08): the hybrid  *)
(* COBS wire format as a pure definition, parameterised by                 *)
(*   L1 - maximum size of the first chunk   (production: 252),             *)
(*   L2 - maximum size of later chunks      (production: 64008),           *)
(*   R  - radix of the size headers         (production: 253).             *)
(* Bytes are naturals 0..255; FE FD is the stuff sequence.                 *)
(*                                                                         *)
(* RefEncode: chunks end at the first FE FD lying entirely inside the      *)
(* current window of L1/L2 bytes (short chunk, the FE FD is implicit),     *)
(* else at the window (full chunk), else at the end of the input (final    *)
(* short chunk).  First header: one byte; later headers: two bytes,        *)
(* little-endian radix R.                                                  *)
(* RefDecode: parses headers (digit < R, size <= limit), re-inserts FE FD  *)
(* after every short chunk except the last, accepts iff the string ends    *)
(* exactly after a short chunk.                                            *)
(*                                                                         *)
(* The definitions are written so that TLC can *evaluate* them on          *)
(* production-size strings (linear in the input for a bounded number of    *)
(* chunks).                                                                *)
(***************************************************************************)
EXTENDS Naturals, Integers, Sequences, FiniteSets, SequencesExt, FiniteSetsExt

FE == 254
FD == 253

HMin(a, b) == IF a <= b THEN a ELSE b

\* 1-based positions i such that s[i..i+1] = FE FD
StuffPositions(s) == {i \in 1..(Len(s) - 1) : s[i] = FE /\ s[i + 1] = FD}
HasStuff(s) == StuffPositions(s) # {}

Hdr(first, n, R) == IF first THEN <<n>> ELSE <<n % R, n \div R>>

\* P: ascending sequence of all stuff positions of s; p: index of the first entry of P not
\* yet behind us.  i: next input position.  Returns the encoding of s[i..].
RECURSIVE EncFrom(_, _, _, _, _, _, _, _)
EncFrom(s, P, i, p, first, L1, L2, R) ==
  LET lim == IF first THEN L1 ELSE L2
      n   == Len(s)
      hi  == HMin(i + lim - 1, n)                       \* last position of the window
      RECURSIVE Skip(_)
      Skip(q) == IF q <= Len(P) /\ P[q] < i THEN Skip(q + 1) ELSE q
      q   == Skip(p)
      k   == IF q <= Len(P) /\ P[q] + 1 <= hi THEN P[q] ELSE 0      \* FE FD entirely inside
  IN IF k # 0
       THEN Hdr(first, k - i, R) \o SubSeq(s, i, k - 1) \o EncFrom(s, P, k + 2, q + 1, FALSE, L1, L2, R)
     ELSE IF hi - i + 1 = lim
       THEN Hdr(first, lim, R) \o SubSeq(s, i, hi) \o EncFrom(s, P, hi + 1, q, FALSE, L1, L2, R)
     ELSE Hdr(first, hi - i + 1, R) \o SubSeq(s, i, hi)              \* final short chunk

RefEncode(s, L1, L2, R) ==
  EncFrom(s, SetToSortSeq(StuffPositions(s), <), 1, 1, TRUE, L1, L2, R)

\* Upper bound of C02 on the encoded length.
CeilDiv(a, b) == (a + b - 1) \div b
EncBound(len, L2) == len + 1 + 2 * CeilDiv(len, L2)

(***************************************************************************)
(* Decoding.  Result: [ok, out, pend]; `out` is what the format defines    *)
(* for the well-formed prefix (used also for rejected strings: everything  *)
(* decoded before the error), pend: an implicit FE FD is pending at the    *)
(* point where parsing stopped.                                            *)
(***************************************************************************)
RECURSIVE DecFrom(_, _, _, _, _, _, _, _)
DecFrom(e, i, first, pend, out, L1, L2, R) ==
  IF i > Len(e) THEN [ok |-> (~first) /\ pend, out |-> out, pend |-> pend] ELSE
  LET hl  == IF first THEN 1 ELSE 2
      lim == IF first THEN L1 ELSE L2
  IN IF i + hl - 1 > Len(e)
       THEN [ok |-> FALSE, out |-> out, pend |-> pend]                       \* cut inside a header
     ELSE
       LET d0 == e[i]
           d1 == IF first THEN 0 ELSE e[i + 1]
           sz == d0 + d1 * R
           badHdr == IF first THEN d0 > lim ELSE (d0 >= R \/ d1 >= R \/ sz > lim)
       IN IF badHdr THEN [ok |-> FALSE, out |-> out, pend |-> pend]
          ELSE IF i + hl + sz - 1 > Len(e)
            THEN [ok |-> FALSE,                                              \* cut inside a chunk
                  out |-> out \o (IF pend THEN <<FE, FD>> ELSE << >>) \o SubSeq(e, i + hl, Len(e)),
                  pend |-> FALSE]
          ELSE DecFrom(e, i + hl + sz, FALSE, sz < lim,
                       out \o (IF pend THEN <<FE, FD>> ELSE << >>) \o SubSeq(e, i + hl, i + hl + sz - 1),
                       L1, L2, R)

RefDecode(e, L1, L2, R) == DecFrom(e, 1, TRUE, FALSE, << >>, L1, L2, R)

IsPrefixOf(a, b) == Len(a) <= Len(b) /\ a = SubSeq(b, 1, Len(a))
=============================================================================
