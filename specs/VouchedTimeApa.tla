--------------------------- MODULE VouchedTimeApa ---------------------------
(* Apalache obligations for C14 over the FULL range (local time 0..PrimitiveDateTime::MAX in ms, *)
(* base time 0..2^64-1): constant-level lemmas checked at length 0 of a trivial machine.         *)
EXTENDS VouchedTime

MAXLOCAL == 253402300799999      \* PrimitiveDateTime::MAX in ms since the epoch
TWO64 == 18446744073709551616

\* @type: (Int, Int) => Bool;
WrapAccept(local, base) ==       \* pre-fix: local.wrapping_sub(base).wrapping_add(59900) <= 62890
  local >= 0 /\ (((local - base) % TWO64) + BACKWARD) % TWO64 <= BACKWARD + FORWARD

VARIABLES
  \* @type: Int;
  local,
  \* @type: Int;
  base

Init == local \in 0..MAXLOCAL /\ base \in 0..(TWO64 - 1)
Next == UNCHANGED <<local, base>>

LimbLemma == SpecAcceptLimbs(Limbs(local), Limbs(base)) <=> SpecAccept(local, base)
ImplLemma == ImplAccept(local, base) <=> SpecAccept(local, base)
WrapLemma == WrapAccept(local, base) <=> SpecAccept(local, base)      \* violated: finding F4
=============================================================================
