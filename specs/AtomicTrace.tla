----------------------------- MODULE AtomicTrace -----------------------------
(***************************************************************************)
(* Trace validation for C13 / C18: executions of the REAL snapshot /       *)
(* update / try_update code, recorded through hook H4 at atomic-operation  *)
(* granularity, are checked                                                *)
(*  (1) for legality against the release/acquire memory model (every load  *)
(*      reads a message at or after the thread's view, values match,       *)
(*      lock mutual exclusion): an illegal execution is a harness error    *)
(*      ("TV-ILLEGAL"), not a finding;                                     *)
(*  (2) against the A-level monitors of C13: a returned pair was passed as *)
(*      a unit to an update (or is the epoch pair), no panic, per-thread   *)
(*      monotonicity, older updates ignored / newer accepted (in lock      *)
(*      order), recency (real-time under SC, own earlier updates always);  *)
(*  (3) against the monitors of C18: a snapshot performs no lock           *)
(*      operation, its loads are bounded by the completed sequence stores, *)
(*      it completes when run alone with writers parked anywhere;          *)
(*      try_update never issues a blocking lock and never waits.           *)
(* The memory orderings are those the code used (recorded per operation).  *)
(***************************************************************************)
EXTENDS Naturals, Integers, Sequences, FiniteSets, TLC, Json, IOUtils

Rec == ndJsonDeserialize(IOEnv.TRACE)

Locs == {"seq", "b0", "v0", "b1", "v1"}
View0 == [x \in Locs |-> 1]
Join(a, b) == [x \in Locs |-> IF a[x] >= b[x] THEN a[x] ELSE b[x]]

VARIABLES l, failed, viol, illegal,
          mem, tv, holder, lockView, sc,
          cs,        \* per thread: the call in progress [k, val, nops, locked (did a lock op), stored (seq store), curAtLock, floor, ofloor]
          cur,       \* last accepted base time, in lock order
          endedMax,  \* max accepted base time among update calls that have returned
          own,       \* per thread: max base time of its own accepted, returned updates
          lastSnap   \* per thread: base time returned by its previous snapshot
vars == <<l, failed, viol, illegal, mem, tv, holder, lockView, sc, cs, cur, endedMax, own, lastSnap>>

CapViol(v, new) == v \cup {x \in new : Cardinality({y \in v : y.prop = x.prop}) < 25}
When(c, S) == IF c THEN S ELSE {}

NoCall == [k |-> "none", val |-> 0, nops |-> 0, locked |-> FALSE, blocking |-> FALSE, stored |-> FALSE,
           curAtLock |-> 0, floor |-> 0, ofloor |-> 0]

Init == /\ l = 1 /\ failed = FALSE /\ viol = {} /\ illegal = {}
        /\ mem = [x \in Locs |-> <<[val |-> 0, view |-> View0]>>] /\ tv = <<>> /\ holder = 0 /\ lockView = View0 /\ sc = FALSE
        /\ cs = <<>> /\ cur = 0 /\ endedMax = 0 /\ own = <<>> /\ lastSnap = <<>>

Reset(e) ==
  /\ mem' = [x \in Locs |-> <<[val |-> 0, view |-> View0]>>]
  /\ tv' = [t \in 1..e.threads |-> View0] /\ holder' = 0 /\ lockView' = View0 /\ sc' = (e.sc = 1)
  /\ cs' = [t \in 1..e.threads |-> NoCall] /\ cur' = 0 /\ endedMax' = 0
  /\ own' = [t \in 1..e.threads |-> 0] /\ lastSnap' = [t \in 1..e.threads |-> 0]
  /\ failed' = FALSE /\ UNCHANGED <<viol, illegal>>

Acq(ord) == ord \in {"acq", "acqrel", "sc"} \/ sc
Rel(ord) == ord \in {"rel", "acqrel", "sc"} \/ sc

\* ---- one recorded atomic operation ----------------------------------------
OpStep(e) ==
  LET t == e.t
      c == cs[t]
      c1 == [c EXCEPT !.nops = @ + 1]
  IN
  CASE e.loc = "ext" ->      \* an atomic / mutex outside the instance (the nfs_voucher static): only who touches a lock matters
         [ill |-> {},
          bad |-> When(c.k \in {"snap", "unlocked"} /\ e.kind \in {"lock", "try_lock"},
                       {<<"C18", "a snapshot / get_base_time_unlocked performed a lock operation">>})
             \cup When(c.k \in {"snap", "unlocked"} /\ e.kind = "store", {<<"C13", "a snapshot wrote to shared memory">>}),
          mem |-> mem, tv |-> tv, holder |-> holder, lockView |-> lockView, cs |-> [cs EXCEPT ![t] = c1], cur |-> cur]
    [] e.kind = "load" ->
         LET lo == IF sc THEN Len(mem[e.loc]) ELSE tv[t][e.loc]
             okrf == e.rf >= lo /\ e.rf <= Len(mem[e.loc])
             base == [tv[t] EXCEPT ![e.loc] = IF e.rf > @ THEN e.rf ELSE @]
         IN [ill |-> When(~okrf, {"load reads a message outside the allowed range"})
                     \cup When(okrf /\ mem[e.loc][e.rf].val # e.val, {"load value differs from the message it reads"}),
             bad |-> {},
             mem |-> mem,
             tv |-> IF okrf THEN [tv EXCEPT ![t] = IF Acq(e.ord) THEN Join(base, mem[e.loc][e.rf].view) ELSE base] ELSE tv,
             holder |-> holder, lockView |-> lockView, cs |-> [cs EXCEPT ![t] = c1], cur |-> cur]
    [] e.kind = "store" ->
         LET n == Len(mem[e.loc]) + 1
             nv == [tv[t] EXCEPT ![e.loc] = n]
             mv == IF Rel(e.ord) THEN nv ELSE [View0 EXCEPT ![e.loc] = n]
         IN [ill |-> {},
             bad |-> When(c.k = "snap", {<<"C13", "a snapshot wrote to shared memory">>}),
             mem |-> [mem EXCEPT ![e.loc] = Append(@, [val |-> e.val, view |-> mv])],
             tv |-> [tv EXCEPT ![t] = nv],
             holder |-> holder, lockView |-> lockView,
             cs |-> [cs EXCEPT ![t] = IF e.loc = "seq" THEN [c1 EXCEPT !.stored = TRUE] ELSE c1],
             cur |-> cur]
    [] e.kind \in {"lock", "try_lock"} ->
         LET got == e.val = 1 IN
         [ill |-> When(got # (holder = 0), {"lock outcome differs from the lock state"}),
          bad |-> When(c.k = "snap", {<<"C18", "a snapshot performed a lock operation">>})
             \cup When(c.k = "try" /\ e.kind = "lock", {<<"C18", "try_update issued a blocking lock()">>}),
          mem |-> mem,
          tv |-> IF got THEN [tv EXCEPT ![t] = Join(@, lockView)] ELSE tv,
          holder |-> IF got THEN t ELSE holder, lockView |-> lockView,
          cs |-> [cs EXCEPT ![t] = [c1 EXCEPT !.locked = got, !.curAtLock = cur]],
          cur |-> cur]
    [] e.kind = "unlock" ->
         \* the writer's decision is final here: older than the current base time <=> no sequence store
         LET mine == holder = t
             accepted == c.stored
         IN [ill |-> {},
             \* (the converse - a newer update must be applied - is not demanded here: try_update may give up,
             \* e.g. on a poisoned lock; an update() that is silently dropped shows up in the recency monitors)
             bad |-> When(mine /\ c.k \in {"upd", "try"} /\ accepted /\ ~(c.val >= c.curAtLock),
                          {<<"C13", "an update older than the current base time was applied">>}),
             mem |-> mem, tv |-> tv,
             holder |-> IF mine THEN 0 ELSE holder,
             lockView |-> IF mine THEN tv[t] ELSE lockView,
             cs |-> [cs EXCEPT ![t] = c1],
             cur |-> IF mine /\ accepted THEN c.val ELSE cur]
    [] OTHER ->   \* clear_poison
         [ill |-> {}, bad |-> {}, mem |-> mem, tv |-> tv, holder |-> holder, lockView |-> lockView,
          cs |-> [cs EXCEPT ![t] = c1], cur |-> cur]

\* ---- call boundaries --------------------------------------------------------
BeginStep(e) ==
  [cs EXCEPT ![e.t] = [NoCall EXCEPT !.k = e.call[1], !.val = IF Len(e.call) >= 2 THEN e.call[2] ELSE 0,
                                    !.floor = endedMax, !.ofloor = own[e.t]]]

RetComplaints(e) ==
  LET t == e.t
      c == cs[t]
      r == e.r
  IN IF r.k = "panic" THEN
          (IF c.k = "bad" THEN {}     \* an update with a mismatched voucher is documented to panic
           ELSE {<<"C13", "panic in " \o c.k \o ": " \o r.msg>>})
     ELSE IF c.k = "snap" THEN
            When(r.vid # r.base, {<<"C13", "snapshot returned a torn pair (voucher does not belong to the base time)">>})
       \cup When(r.base < lastSnap[t], {<<"C13", "base times observed by one thread went backwards">>})
       \cup When(r.base < c.ofloor, {<<"C13", "snapshot older than an update the same thread completed earlier">>})
       \cup When(sc /\ r.base < c.floor, {<<"C13", "snapshot older than an update that completed before it began">>})
       \cup When(e.nops > 1 + 3 * e.seqlen, {<<"C18", "snapshot took more loads than completed writes can explain">>})
     ELSE IF c.k = "upd" THEN
            \* update() never gives up: holding the lock, it ignores the new pair only if it is not newer than the base time
            \* that is current then (what a writer that died on a mismatched pair tried to store does not count)
            When(c.locked /\ ~c.stored /\ c.val > c.curAtLock,
                 {<<"C13", "update() ignored a pair newer than the base time that was current while it held the lock">>})
     ELSE IF c.k = "unlocked" THEN
            When(e.nops > 4 + 3 * e.seqlen, {<<"C18", "get_base_time_unlocked took an unbounded number of steps">>})
     ELSE IF c.k = "try" THEN
            When(r.ok = 1 /\ ~c.stored, {<<"C13", "try_update reports success without committing">>})
       \cup When(r.ok = 0 /\ c.stored, {<<"C13", "try_update reports failure although it committed">>})
       \cup When(~c.locked /\ e.nops # 1, {<<"C18", "try_update did not return at once when the lock was held">>})
     ELSE {}

Next ==
  /\ l <= Len(Rec)
  /\ l' = l + 1
  /\ LET e == Rec[l] IN
     IF e.ev = "reset" THEN Reset(e)
     ELSE IF e.ev = "reset_after_crash" THEN
        /\ failed' = TRUE /\ UNCHANGED <<viol, illegal, mem, tv, holder, lockView, sc, cs, cur, endedMax, own, lastSnap>>
     ELSE IF failed THEN UNCHANGED <<failed, viol, illegal, mem, tv, holder, lockView, sc, cs, cur, endedMax, own, lastSnap>>
     ELSE IF e.ev = "begin" THEN
        /\ cs' = BeginStep(e)
        /\ UNCHANGED <<failed, viol, illegal, mem, tv, holder, lockView, sc, cur, endedMax, own, lastSnap>>
     ELSE IF e.ev = "op" THEN
        LET r == OpStep(e) IN
        /\ mem' = r.mem /\ tv' = r.tv /\ holder' = r.holder /\ lockView' = r.lockView /\ cs' = r.cs /\ cur' = r.cur
        /\ illegal' = illegal \cup {[run |-> e.run, line |-> l, what |-> w] : w \in r.ill}
        /\ failed' = (r.ill # {} \/ r.bad # {})
        /\ viol' = CapViol(viol, {[run |-> e.run, line |-> l, prop |-> x[1], what |-> x[2]] : x \in r.bad})
        /\ UNCHANGED <<sc, endedMax, own, lastSnap>>
     ELSE IF e.ev = "ret" THEN
        LET bad == RetComplaints(e)
            c == cs[e.t]
            accepted == c.k \in {"upd", "try"} /\ c.stored
        IN
        /\ viol' = CapViol(viol, {[run |-> e.run, line |-> l, prop |-> x[1], what |-> x[2]] : x \in bad})
        /\ failed' = (bad # {})
        /\ cs' = [cs EXCEPT ![e.t] = NoCall]
        /\ endedMax' = IF accepted /\ c.val > endedMax THEN c.val ELSE endedMax
        /\ own' = IF accepted /\ c.val > own[e.t] THEN [own EXCEPT ![e.t] = c.val] ELSE own
        /\ lastSnap' = IF c.k = "snap" /\ e.r.k = "snap" THEN [lastSnap EXCEPT ![e.t] = e.r.base] ELSE lastSnap
        \* a genuine panic that unwound through the guard released (and poisoned) the lock
        /\ holder' = IF e.poisoned = 1 THEN 0 ELSE holder
        /\ lockView' = IF e.poisoned = 1 THEN tv[e.t] ELSE lockView
        /\ UNCHANGED <<illegal, mem, tv, sc, cur>>
     ELSE IF e.ev = "blocked" THEN
        \* threads the strategy wanted to run are waiting for the lock although its holder is parked
        /\ viol' = CapViol(viol, {[run |-> e.run, line |-> l, prop |-> "C18",
                                   what |-> "a call waits for the writer lock whose holder is suspended: " \o e.calls[i]]
                                  : i \in {j \in 1..Len(e.calls) : cs[e.threads[j]].k \in {"snap", "try"}}})
        /\ UNCHANGED <<failed, illegal, mem, tv, holder, lockView, sc, cs, cur, endedMax, own, lastSnap>>
     ELSE IF e.ev = "stuck" THEN
        /\ viol' = CapViol(viol, {[run |-> e.run, line |-> l, prop |-> "C18",
                                   what |-> "calls did not complete within the step budget (a reader run alone must finish)"]})
        /\ UNCHANGED <<failed, illegal, mem, tv, holder, lockView, sc, cs, cur, endedMax, own, lastSnap>>
     ELSE UNCHANGED <<failed, viol, illegal, mem, tv, holder, lockView, sc, cs, cur, endedMax, own, lastSnap>>

Spec == Init /\ [][Next]_vars

Done == (l = Len(Rec) + 1) =>
          /\ PrintT(<<"TV-VIOL", ToJson(viol)>>)
          /\ PrintT(<<"TV-DRIFT", ToJson(illegal)>>)
          /\ PrintT(<<"TV-DONE", Len(Rec)>>)
=============================================================================
