------------------------------ MODULE VtTrace ------------------------------
(* Trace validation for C14: every recorded VouchedTime::new / check / now *)
(* verdict is compared with SpecAcceptLimbs on the recorded limbs:         *)
(*   Ok  <=>  the voucher vouches for the base time (known to the          *)
(*            generator: voucher kind "ok") /\ the local time is not       *)
(*            before the epoch /\ floor(local ms) - base in -59900..2990.  *)
EXTENDS VouchedTime, Sequences, FiniteSets, TLC, Json, IOUtils

Rec == ndJsonDeserialize(IOEnv.TRACE)
VARIABLES l, viol
vars == <<l, viol>>
CapViol(v, new) == v \cup {x \in new : Cardinality({y \in v : y.prop = x.prop}) < 40}
Init == l = 1 /\ viol = {}
When(c, S) == IF c THEN S ELSE {}

Check(e) ==
  LET must == e.vk = "ok" /\ e.neg = 0 /\ SpecAcceptLimbs(e.lms, e.base) IN
  IF e.panic # "" THEN {"VouchedTime panicked: " \o e.panic}
  ELSE When((e.ok = 1) # must,
            {IF must THEN "rejected although vouched, not before the epoch and inside the window"
             ELSE IF e.vk # "ok" THEN "accepted with a voucher that does not vouch for this base time"
             ELSE IF e.neg = 1 THEN "accepted although the local time is before the Unix epoch"
             ELSE "accepted although local - base is outside -59900..+2990 ms"})
       \cup When(e.err = "check() disagrees with new()", {"check() and new() disagree"})
       \cup When(e.ok = 1 /\ e.same # 1, {"a constructed VouchedTime does not report the local time it was built from"})

Next == /\ l <= Len(Rec) /\ l' = l + 1
        /\ LET e == Rec[l] IN
           IF e.ev # "vt" THEN UNCHANGED viol
           ELSE viol' = CapViol(viol, {[run |-> e.run, line |-> l, prop |-> "C14", what |-> w] : w \in Check(e)})
Spec == Init /\ [][Next]_vars
Done == (l = Len(Rec) + 1) =>
          /\ PrintT(<<"TV-VIOL", ToJson(viol)>>) /\ PrintT(<<"TV-DRIFT", ToJson({})>>) /\ PrintT(<<"TV-DONE", Len(Rec)>>)
=============================================================================
