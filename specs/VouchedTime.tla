---------------------------- MODULE VouchedTime ----------------------------
(***************************************************************************)
(* C14: VouchedTime exists only inside the allowed window around a vouched *)
(* base time.                                                              *)
(*                                                                         *)
(* SpecAccept is the property over mathematical integers (milliseconds).   *)
(* ImplAccept transcribes the current code (i128 difference); the         *)
(* pre-fix wrapping formula (finding F4) is WrapAccept in                  *)
(* VouchedTimeApa.tla (its 2^64 literal is beyond TLC's integers).         *)
(*                                                                         *)
(* Recorded values exceed TLC's 32-bit integers, so traces carry every     *)
(* 64-bit quantity as three 30-bit limbs and the trace specification       *)
(* decides SpecAcceptLimbs; LimbLemma (checked symbolically by Apalache    *)
(* over the full range) states that it is the same predicate.              *)
(***************************************************************************)
EXTENDS Integers

BACKWARD == 59900
FORWARD == 2990
LB == 1073741824                 \* 2^30

\* @type: (Int, Int) => Bool;
SpecAccept(local, base) == local >= 0 /\ local - base >= -BACKWARD /\ local - base <= FORWARD

\* @type: (Int, Int) => Bool;
ImplAccept(local, base) ==       \* current code: local_ms as i128 minus base as i128, range test
  LET delta == local - base IN local >= 0 /\ delta >= -BACKWARD /\ delta <= FORWARD

\* limbs: x = x0 + x1 * 2^30 + x2 * 2^60
\* @type: (Int) => <<Int, Int, Int>>;
Limbs(x) == <<x % LB, (x \div LB) % LB, x \div (LB * LB)>>

\* @type: (<<Int, Int, Int>>, <<Int, Int, Int>>) => Bool;
LGeq(a, b) == a[3] > b[3] \/ (a[3] = b[3] /\ (a[2] > b[2] \/ (a[2] = b[2] /\ a[1] >= b[1])))

\* a - b for a >= b, with borrows
\* @type: (<<Int, Int, Int>>, <<Int, Int, Int>>) => <<Int, Int, Int>>;
LSub(a, b) ==
  LET d0 == a[1] - b[1]
      br0 == IF d0 < 0 THEN 1 ELSE 0
      d1 == a[2] - b[2] - br0
      br1 == IF d1 < 0 THEN 1 ELSE 0
      d2 == a[3] - b[3] - br1
  IN <<IF d0 < 0 THEN d0 + LB ELSE d0, IF d1 < 0 THEN d1 + LB ELSE d1, d2>>

\* @type: (<<Int, Int, Int>>, Int) => Bool;
LAtMost(d, k) == d[3] = 0 /\ d[2] = 0 /\ d[1] <= k          \* k < 2^30

\* local >= 0 is decided by the caller (sign flag of the recorded local time)
\* @type: (<<Int, Int, Int>>, <<Int, Int, Int>>) => Bool;
SpecAcceptLimbs(l, b) ==
  IF LGeq(l, b) THEN LAtMost(LSub(l, b), FORWARD) ELSE LAtMost(LSub(b, l), BACKWARD)

=============================================================================
