------------------------------ MODULE AtomicMC ------------------------------
(* Model-checking configurations for AtomicBaseTime.tla (thread programs   *)
(* cannot be written in a TLC cfg file, so they are definitions here).     *)
EXTENDS AtomicBaseTime

\* two writers (an older-than-current update included, one try_update) and one reader
Prog_2W1R == << << <<"upd", 2>>, <<"upd", 1>> >>, << <<"upd", 3>>, <<"try", 1>> >>, << <<"snap">> >> >>
\* one writer lapping both slots while a reader reads twice
Prog_1W1R == << << <<"upd", 1>>, <<"upd", 2>>, <<"upd", 3>> >>, << <<"snap">>, <<"snap">> >> >>
\* a thread that updates and then reads (recency in program order), against another writer
Prog_Mixed == << << <<"upd", 2>>, <<"snap">> >>, << <<"try", 1>>, <<"upd", 3>> >> >>
\* thorough: two writers (one laps both slots), two readers
Prog_2W2R == << << <<"upd", 1>>, <<"upd", 3>> >>, << <<"upd", 2>> >>, << <<"snap">> >>, << <<"snap">> >> >>
\* not model-checked (no verdict after 50 min at 8 workers); its shape is run by the random schedules on the real code
Prog_2W2R_big == << << <<"upd", 1>>, <<"upd", 3>> >>, << <<"upd", 2>>, <<"try", 4>> >>, << <<"snap">>, <<"snap">> >>, << <<"snap">> >> >>
=============================================================================
