----------------------------- MODULE SortedTrace -----------------------------
(* Trace validation for C16 (and C15's waste bound on the inner deque):    *)
(* events recorded from the real SortedDeque are checked against the       *)
(* ordered-map A-spec of Sorted.tla; the physical projection (hook H1) is  *)
(* compared with the I-spec and reported as DRIFT only.                    *)
EXTENDS FiniteSets, Sorted, TLC, Json, IOUtils

Rec == ndJsonDeserialize(IOEnv.TRACE)

VARIABLES l, live, s, mode, failed, viol, drift
vars == <<l, live, s, mode, failed, viol, drift>>

\* keep the violation set small (per property): a broken build can fail tens of thousands of runs
CapViol(v, new) == v \cup {x \in new : Cardinality({y \in v : y.prop = x.prop}) < 25}

Init == l = 1 /\ live = OInit /\ s = IInit /\ mode = "kv" /\ failed = FALSE /\ viol = {} /\ drift = {}

B(x) == IF x THEN 1 ELSE 0

\* complaints are pairs <<property, message>>
Check(e, ar) ==
  LET m2 == ar.st IN
  IF ar.panic THEN (IF e.panic = "" THEN {<<"C16", "push of a non-increasing key did not panic">>} ELSE {})
  ELSE IF e.panic # "" THEN {<<"C16", "panic on a valid sequence: " \o e.panic>>}
  ELSE IF e.obs_panic # "" THEN {<<"C16", "accessor panic: " \o e.obs_panic>>}
  ELSE
        (IF e.ret # ar.ret THEN {<<"C16", "return value differs from ordered map">>} ELSE {})
   \cup (IF e.iter # m2 THEN {<<"C16", "iteration differs from ordered map">>} ELSE {})
   \cup (IF e.first # OFirst(m2) THEN {<<"C16", "first">>} ELSE {})
   \cup (IF e.last # OLast(m2) THEN {<<"C16", "last">>} ELSE {})
   \cup (IF e.empty # B(m2 = << >>) THEN {<<"C16", "is_empty">>} ELSE {})
   \cup (IF ~WasteOK(e.consumed, e.clen) THEN {<<"C15", "waste bound of the inner SlidingDeque: consumed > container/2">>} ELSE {})

\* after an expected panic the observations must still equal the (unchanged) map
CheckAfterPanic(e, ar) ==
  IF ar.panic /\ e.panic # "" /\ e.obs_panic = "" /\ e.iter # ar.st
  THEN {<<"C16", "contents changed by a rejected push">>} ELSE {}

Next ==
  /\ l <= Len(Rec)
  /\ l' = l + 1
  /\ LET e == Rec[l] IN
     IF e.ev = "reset_after_crash" THEN      \* the process died in this run (reported by the orchestrator)
        /\ failed' = TRUE /\ UNCHANGED <<live, s, mode, viol, drift>>
     ELSE IF e.ev = "reset" THEN
        /\ live' = OInit /\ s' = IInit /\ mode' = e.mode
        /\ failed' = FALSE /\ UNCHANGED <<viol, drift>>
     ELSE IF failed THEN UNCHANGED <<live, s, mode, failed, viol, drift>>
     ELSE LET ar == OApply(live, e, mode)
              ir == SApply(s, e, mode, FALSE)
              bad == Check(e, ar) \cup CheckAfterPanic(e, ar)
          IN /\ live' = ar.st
             /\ s' = ir.st
             /\ mode' = mode
             /\ failed' = (bad # {})
             /\ viol' = CapViol(viol, {[run |-> e.run, line |-> l, prop |-> w[1], what |-> w[2]] : w \in bad})
             /\ drift' = IF bad = {} /\ e.obs_panic = "" /\ (e.phys # IView(ir.st) \/ e.consumed # ir.st.k \/ e.clen # Len(ir.st.c))
                         THEN drift \cup {[run |-> e.run, line |-> l, what |-> "physical items/consumed/container length differ from transcription"]}
                         ELSE drift

Spec == Init /\ [][Next]_vars

Done == (l = Len(Rec) + 1) =>
          /\ PrintT(<<"TV-VIOL", ToJson(viol)>>)
          /\ PrintT(<<"TV-DRIFT", ToJson(drift)>>)
          /\ PrintT(<<"TV-DONE", Len(Rec)>>)
=============================================================================
