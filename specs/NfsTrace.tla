------------------------------ MODULE NfsTrace ------------------------------
(* Trace validation for C19: every call of the real nfs_voucher module,    *)
(* over files on two real devices (one process per trace), is checked      *)
(* against the A-level properties of NfsVoucher.tla using only values the  *)
(* harness itself observed (file change-times as it stats them, the base   *)
(* time after each call):                                                  *)
(*   Monotone, OnlyTrustedEvidence, UntrustedIgnored, ReturnsVouched.      *)
EXTENDS Naturals, Integers, Sequences, FiniteSets, TLC, Json, IOUtils

Rec == ndJsonDeserialize(IOEnv.TRACE)
VARIABLES l, viol, trusted, base, devOf, drift,
          mtlast      \* concurrent callers ("mt"): the base time each thread read last
vars == <<l, viol, trusted, base, devOf, drift, mtlast>>
NoThreads == [t \in 0..63 |-> 0]
CapViol(v, new) == v \cup {x \in new : Cardinality({y \in v : y.prop = x.prop}) < 40}
When(c, S) == IF c THEN S ELSE {}
Init == l = 1 /\ viol = {} /\ trusted = {} /\ base = 0 /\ devOf = <<>> /\ drift = {} /\ mtlast = NoThreads

FileRec(e, f) == LET I == {i \in 1..Len(e.files) : e.files[i].f = f} IN
                 IF I = {} THEN [f |-> f, dev |-> "?", ctime |-> 0, mtime |-> 0] ELSE e.files[CHOOSE i \in I : TRUE]

Check(e) ==
  LET target == IF "f" \in DOMAIN e THEN FileRec(e, e.f) ELSE [f |-> 0, dev |-> "?", ctime |-> 0, mtime |-> 0]
      \* the device of the observed file as of the previous observation (before the call touched anything)
      trustedAfter == IF e.ev = "add" /\ e.err = "" /\ e.panic = "" THEN trusted \cup {target.dev} ELSE trusted
  IN   When(e.panic # "", {"panic in " \o e.ev \o ": " \o e.panic})
  \cup When(e.base < base, {"the base time decreased"})
  \* (during "mt" the files are touched by the module itself many times; only the last change-time is visible here)
  \cup When(e.ev # "mt" /\ e.base # base /\ ~\E i \in 1..Len(e.files) : e.files[i].ctime = e.base /\ e.files[i].dev \in trustedAfter,
            {"the base time changed to a value that is not the change-time of a file on a trusted device"})
  \cup When(e.base_vok # 1 \/ e.vok # 1, {"a returned (base time, voucher) pair does not pass the voucher check"})
  \cup When(e.ev = "observe" /\ e.err = "" /\ target.dev \notin trusted /\ (e.ret # -1 \/ e.base # base),
            {"observing a file on an untrusted device reported something or changed the base time"})
  \cup When(e.ev = "observe" /\ e.err = "" /\ target.dev \in trusted /\ e.ret # target.ctime,
            {"observing a file on a trusted device did not report its change-time"})
  \cup When(e.ev = "get_unlocked" /\ e.ret # e.base, {"get_base_time_unlocked differs from the current base time"})
  \cup When(e.ev = "get" /\ e.err = "" /\ ~(e.ret = e.base \/ (e.ret <= e.base /\ \E i \in 1..Len(e.files) :
                                              e.files[i].ctime = e.ret /\ e.files[i].dev \in trusted)),
            {"get_base_time returned neither the current base time nor the change-time of a trusted file"})

\* should_refresh_base_time(leeway, now) is pure policy, outside C19: "refresh iff the base time is more than the leeway
\* behind `now` and there is a trusted path to refresh from" (default leeway: two thirds of the forward tolerance,
\* 2 * 2990 \div 3 ms).  A base time of 0 (none yet) is infinitely stale.  Deviations are reported as DRIFT.
DefaultLeeway == (2 * 2990) \div 3
ShouldRefresh(now, leeway, b, tr) ==
  LET lee == IF leeway < 0 THEN DefaultLeeway ELSE leeway
      age == IF b = 0 THEN 2000000000 ELSE IF now > b THEN now - b ELSE 0
  IN age > lee /\ tr # {}
PolicyDrift(e) ==
  When(e.ev = "should_refresh" /\ e.panic = "" /\ e.err = "" /\ e.sr_now > 1
       /\ (e.sr_ans = 1) # ShouldRefresh(e.sr_now, e.sr_leeway, e.base, trusted),
       {[run |-> e.run, line |-> l, what |-> "should_refresh_base_time disagrees with the policy (age > leeway and a trusted path exists)"]})

\* One observation of one of several concurrent callers: it forced a refresh (which reported e.rep) and then read e.seen.
\* Whatever the other threads do, the base time this thread reads never decreases and is at least what its refresh reported.
MtCheck(e) ==
       When(e.vok # 1, {"a returned (base time, voucher) pair does not pass the voucher check (concurrent callers)"})
  \cup When(e.seen < e.rep, {"concurrent callers: a refresh reported a base time, the base time read afterwards is older"})
  \cup When(e.seen < mtlast[e.t] \/ e.seen < base, {"concurrent callers: the base time decreased"})

\* C18 at the module level: get_base_time_unlocked is a wait-free read, whatever `now` it is given - it never goes through
\* the (blocking) update path, so it never changes the base time
Check18(e) ==
  When(e.ev = "get_unlocked" /\ e.err = "" /\ e.panic = "" /\ e.base # base,
       {"get_base_time_unlocked changed the base time: it went through the blocking update path"})

Next == /\ l <= Len(Rec) /\ l' = l + 1
        /\ LET e == Rec[l] IN
           IF e.ev = "reset" THEN trusted' = {} /\ base' = 0 /\ mtlast' = NoThreads /\ UNCHANGED <<viol, devOf, drift>>      \* a new process
           ELSE IF e.ev \in {"end", "reset_after_crash"} THEN UNCHANGED <<viol, trusted, base, devOf, drift, mtlast>>
           ELSE IF e.ev = "mt_obs" THEN
                /\ viol' = CapViol(viol, {[run |-> e.run, line |-> l, prop |-> "C19", what |-> w] : w \in MtCheck(e)})
                /\ mtlast' = [mtlast EXCEPT ![e.t] = e.seen]
                /\ UNCHANGED <<trusted, base, devOf, drift>>
           ELSE /\ mtlast' = NoThreads
                /\ drift' = (IF Cardinality(drift) < 20 THEN drift \cup PolicyDrift(e) ELSE drift)
                /\ viol' = CapViol(viol, {[run |-> e.run, line |-> l, prop |-> "C19", what |-> w] : w \in Check(e)}
                                         \cup {[run |-> e.run, line |-> l, prop |-> "C18", what |-> w] : w \in Check18(e)})
                /\ trusted' = IF e.ev = "add" /\ e.err = "" /\ e.panic = "" /\ "f" \in DOMAIN e
                              THEN trusted \cup {FileRec(e, e.f).dev} ELSE trusted
                /\ base' = e.base
                /\ devOf' = devOf
Spec == Init /\ [][Next]_vars
Done == (l = Len(Rec) + 1) =>
          /\ PrintT(<<"TV-VIOL", ToJson(viol)>>) /\ PrintT(<<"TV-DRIFT", ToJson(drift)>>) /\ PrintT(<<"TV-DONE", Len(Rec)>>)
=============================================================================
