------------------------------ MODULE StreamMC ------------------------------
(* Design model checking for C08 / C06: for ALL streams up to MaxLen over  *)
(* Alphabet, all block sizes and all standard-judge parameters, the        *)
(* transcribed StreamChunker tiles the stream and the transcribed          *)
(* StreamReader returns exactly Records(stream).  One TLC state per        *)
(* configuration (the algorithms are deterministic given read_n's          *)
(* contract, C17).                                                         *)
EXTENDS StreamFraming
CONSTANTS Alphabet, MaxLen, Blocks, MaxSizes, SkipSets, StopSets, BugF1
VARIABLE c      \* [s, block, maxSize, limit, skipAt, stopAt]
Streams == UNION {[1..n -> Alphabet] : n \in 0..MaxLen}
Init == \E s \in Streams, b \in Blocks, m \in MaxSizes, lim \in (0..MaxLen) \cup {1000000}, sk \in SkipSets, sp \in StopSets :
           /\ (lim <= Len(s) \/ lim = 1000000)
           /\ c = [s |-> s, block |-> b, maxSize |-> m, limit |-> lim, skipAt |-> sk, stopAt |-> sp]
Next == UNCHANGED c
Spec == Init /\ [][Next]_c

Chunks == PumpAll(CInit, c.s, c.block, BugF1, 3 * Len(c.s) + 6)
ChunkerTiles == /\ TileComplaints(Chunks, c.s) = {}
                /\ Chunks # << >> /\ Chunks[Len(Chunks)].k = "E"       \* Eof is reached
J == [maxSize |-> c.maxSize, limit |-> c.limit, skipAt |-> c.skipAt, stopAt |-> c.stopAt]
ReaderExact == BugF1 \/
   AllRecords(CInit, c.s, c.block, J, 252, 64008, 253, Len(c.s) + 2) = RecordsJ(c.s, J, 252, 64008, 253)
\* the declarative definition of the records for the standard judge and the walk agree
StdAgrees == (c.skipAt = {} /\ c.stopAt = {}) =>
   RecordsJ(c.s, J, 252, 64008, 253) = Records(c.s, c.maxSize, c.limit, 252, 64008, 253)
=============================================================================
