-------------------------- MODULE AtomicBaseTime --------------------------
(***************************************************************************)
(* I-spec for C13 / C18: vouched_time/src/atomic_base_time.rs at           *)
(* atomic-operation granularity on a view-based release/acquire memory     *)
(* model (RAMemory part), with every memory ordering a CONSTANT so that    *)
(* the design check runs on the orderings the code actually uses           *)
(* (extracted through hook H4) and so that weakening any of them can be    *)
(* shown to break the property.                                            *)
(*                                                                         *)
(* Memory model: per location a modification-ordered list of messages      *)
(* [val, view]; per thread a view (Loc -> index of the latest message it    *)
(* knows).  A load may read any message at or after the thread's view of    *)
(* that location; an acquire load joins the message's view; a release      *)
(* store publishes the thread's view.  The mutex transfers views           *)
(* (acquire on lock, release on unlock).  SC = TRUE restricts every load   *)
(* to the latest message (sequentially consistent interleavings).          *)
(* Not modelled: out-of-thin-air / load-buffering behaviours of relaxed    *)
(* accesses, sequence wrap-around, lock poisoning.                         *)
(*                                                                         *)
(* Base times are small naturals; the voucher of base time n is modelled   *)
(* as n itself, so a pair passed as a unit is (n, n) and a torn pair is    *)
(* (m, n) with m # n (the real code's voucher check panics on it).         *)
(***************************************************************************)
EXTENDS Naturals, Integers, Sequences, FiniteSets, TLC

CONSTANTS
  Programs,      \* sequence (one entry per thread) of sequences of calls <<"snap">> | <<"upd", v>> | <<"try", v>>
  SC,            \* TRUE: sequentially consistent interleavings only
  OrdSeq1,       \* snapshot: first load of the sequence           ("acq" in the code)
  OrdSlotLoad,   \* snapshot: loads of the slot's voucher and base  ("acq")
  OrdSeq2,       \* snapshot: re-load of the sequence               ("acq")
  OrdSlotStore,  \* writer: stores to the slot                      ("rel")
  OrdSeqStore,   \* writer: store of the sequence                   ("rel")
  OrdWSeq,       \* writer: load of the sequence                    ("rlx")
  OrdWSlot       \* writer: loads of the stable slot                ("acq")

Threads == 1..Len(Programs)
Locs == {"seq", "b0", "v0", "b1", "v1"}
SlotB(s) == IF s % 2 = 0 THEN "b0" ELSE "b1"
SlotV(s) == IF s % 2 = 0 THEN "v0" ELSE "v1"

VARIABLES mem,      \* Loc -> Seq([val, view])
          tv,       \* Thread -> view
          holder,   \* 0 or the thread holding the writer lock
          lockView, \* view released by the last unlock
          th,       \* Thread -> local state record
          accepted, \* sequence of accepted base times, in lock order (history)
          ended     \* set of accepted base times whose update call has returned (history, for Recent under SC)
vars == <<mem, tv, holder, lockView, th, accepted, ended>>

View0 == [l \in Locs |-> 1]
Join(a, b) == [l \in Locs |-> IF a[l] >= b[l] THEN a[l] ELSE b[l]]
MaxOf(S) == CHOOSE x \in S : \A y \in S : y <= x

Idle == [k |-> 0, pc |-> "idle", s |-> 0, vb |-> 0, bb |-> 0, cur |-> 0, cb |-> 0, val |-> 0, ret |-> 0,
         floor |-> 0, ofloor |-> 0, results |-> << >>, rets |-> << >>, steps |-> 0]

Init ==
  /\ mem = [l \in Locs |-> <<[val |-> 0, view |-> View0]>>]
  /\ tv = [t \in Threads |-> View0]
  /\ holder = 0 /\ lockView = View0
  /\ th = [t \in Threads |-> Idle]
  /\ accepted = << >> /\ ended = {}

\* ---- memory operations -------------------------------------------------
Readable(t, l) == IF SC THEN {Len(mem[l])} ELSE tv[t][l]..Len(mem[l])

LoadView(t, l, ord, i) ==
  LET base == [tv[t] EXCEPT ![l] = IF i > @ THEN i ELSE @] IN
  IF ord = "acq" \/ SC THEN Join(base, mem[l][i].view) ELSE base

StoreEffect(t, l, ord, v) ==      \* returns [mem, view]
  LET n == Len(mem[l]) + 1
      nv == [tv[t] EXCEPT ![l] = n]
      mview == IF ord = "rel" \/ SC THEN nv ELSE [View0 EXCEPT ![l] = n]
  IN [mem |-> [mem EXCEPT ![l] = Append(@, [val |-> v, view |-> mview])], view |-> nv]

\* ---- thread steps --------------------------------------------------------
Call(t) == Programs[t][th[t].k]
Set(t, r) == th' = [th EXCEPT ![t] = r]
Count(t) == [th[t] EXCEPT !.steps = @ + 1]

Begin(t) ==
  /\ th[t].pc = "idle" /\ th[t].k < Len(Programs[t])
  /\ LET c == Programs[t][th[t].k + 1]
         fl == IF ended = {} THEN 0 ELSE MaxOf(ended)
         own == {th[t].rets[j][1] : j \in {q \in 1..Len(th[t].rets) : th[t].rets[q][2] = 1}}
     IN Set(t, [th[t] EXCEPT !.k = @ + 1, !.steps = 0, !.floor = fl, !.ofloor = IF own = {} THEN 0 ELSE MaxOf(own),
                             !.val = IF c[1] = "snap" THEN 0 ELSE c[2],
                             !.pc = IF c[1] = "snap" THEN "s_seq1" ELSE IF c[1] = "upd" THEN "u_lock" ELSE "t_try"])
  /\ UNCHANGED <<mem, tv, holder, lockView, accepted, ended>>

\* snapshot ---------------------------------------------------------------
SSeq1(t, i) ==
  /\ th[t].pc = "s_seq1" /\ i \in Readable(t, "seq")
  /\ tv' = [tv EXCEPT ![t] = LoadView(t, "seq", OrdSeq1, i)]
  /\ Set(t, [Count(t) EXCEPT !.s = mem["seq"][i].val, !.pc = "s_v"])
  /\ UNCHANGED <<mem, holder, lockView, accepted, ended>>
SVoucher(t, i) ==
  /\ th[t].pc = "s_v" /\ i \in Readable(t, SlotV(th[t].s))
  /\ tv' = [tv EXCEPT ![t] = LoadView(t, SlotV(th[t].s), OrdSlotLoad, i)]
  /\ Set(t, [Count(t) EXCEPT !.vb = mem[SlotV(th[t].s)][i].val, !.pc = "s_b"])
  /\ UNCHANGED <<mem, holder, lockView, accepted, ended>>
SBase(t, i) ==
  /\ th[t].pc = "s_b" /\ i \in Readable(t, SlotB(th[t].s))
  /\ tv' = [tv EXCEPT ![t] = LoadView(t, SlotB(th[t].s), OrdSlotLoad, i)]
  /\ Set(t, [Count(t) EXCEPT !.bb = mem[SlotB(th[t].s)][i].val, !.pc = "s_seq2"])
  /\ UNCHANGED <<mem, holder, lockView, accepted, ended>>
SSeq2(t, i) ==
  /\ th[t].pc = "s_seq2" /\ i \in Readable(t, "seq")
  /\ tv' = [tv EXCEPT ![t] = LoadView(t, "seq", OrdSeq2, i)]
  /\ LET s2 == mem["seq"][i].val IN
     Set(t, IF s2 = th[t].s THEN [Count(t) EXCEPT !.pc = "s_ret"]
            ELSE [Count(t) EXCEPT !.s = s2, !.pc = "s_v"])
  /\ UNCHANGED <<mem, holder, lockView, accepted, ended>>
SRet(t) ==
  /\ th[t].pc = "s_ret"
  /\ Set(t, [th[t] EXCEPT !.pc = "idle", !.results = Append(@, <<th[t].bb, th[t].vb, th[t].floor, th[t].ofloor>>)])
  /\ UNCHANGED <<mem, tv, holder, lockView, accepted, ended>>

\* update / try_update -----------------------------------------------------
ULock(t) ==
  /\ th[t].pc = "u_lock" /\ holder = 0
  /\ holder' = t /\ tv' = [tv EXCEPT ![t] = Join(@, lockView)]
  /\ Set(t, [Count(t) EXCEPT !.pc = "a_seq"])
  /\ UNCHANGED <<mem, lockView, accepted, ended>>
TTry(t) ==
  /\ th[t].pc = "t_try"
  /\ IF holder = 0
       THEN /\ holder' = t /\ tv' = [tv EXCEPT ![t] = Join(@, lockView)]
            /\ Set(t, [Count(t) EXCEPT !.pc = "a_seq"])
       ELSE /\ UNCHANGED <<holder, tv>>
            /\ Set(t, [Count(t) EXCEPT !.ret = 0, !.pc = "u_ret"])
  /\ UNCHANGED <<mem, lockView, accepted, ended>>
ASeq(t, i) ==
  /\ th[t].pc = "a_seq" /\ i \in Readable(t, "seq")
  /\ tv' = [tv EXCEPT ![t] = LoadView(t, "seq", OrdWSeq, i)]
  /\ Set(t, [Count(t) EXCEPT !.cur = mem["seq"][i].val, !.pc = "a_v"])
  /\ UNCHANGED <<mem, holder, lockView, accepted, ended>>
AVoucher(t, i) ==
  /\ th[t].pc = "a_v" /\ i \in Readable(t, SlotV(th[t].cur))
  /\ tv' = [tv EXCEPT ![t] = LoadView(t, SlotV(th[t].cur), OrdWSlot, i)]
  /\ Set(t, [Count(t) EXCEPT !.pc = "a_b"])
  /\ UNCHANGED <<mem, holder, lockView, accepted, ended>>
ABase(t, i) ==
  /\ th[t].pc = "a_b" /\ i \in Readable(t, SlotB(th[t].cur))
  /\ tv' = [tv EXCEPT ![t] = LoadView(t, SlotB(th[t].cur), OrdWSlot, i)]
  /\ LET cb == mem[SlotB(th[t].cur)][i].val IN
     Set(t, IF th[t].val < cb THEN [Count(t) EXCEPT !.cb = cb, !.ret = 0, !.pc = "a_unlock"]
            ELSE [Count(t) EXCEPT !.cb = cb, !.pc = "a_sb"])
  /\ UNCHANGED <<mem, holder, lockView, accepted, ended>>
AStoreBase(t) ==
  /\ th[t].pc = "a_sb"
  /\ LET e == StoreEffect(t, SlotB(th[t].cur + 1), OrdSlotStore, th[t].val) IN
     mem' = e.mem /\ tv' = [tv EXCEPT ![t] = e.view]
  /\ Set(t, [Count(t) EXCEPT !.pc = "a_sv"])
  /\ UNCHANGED <<holder, lockView, accepted, ended>>
AStoreVoucher(t) ==
  /\ th[t].pc = "a_sv"
  /\ LET e == StoreEffect(t, SlotV(th[t].cur + 1), OrdSlotStore, th[t].val) IN
     mem' = e.mem /\ tv' = [tv EXCEPT ![t] = e.view]
  /\ Set(t, [Count(t) EXCEPT !.pc = "a_sseq"])
  /\ UNCHANGED <<holder, lockView, accepted, ended>>
AStoreSeq(t) ==
  /\ th[t].pc = "a_sseq"
  /\ LET e == StoreEffect(t, "seq", OrdSeqStore, th[t].cur + 1) IN
     mem' = e.mem /\ tv' = [tv EXCEPT ![t] = e.view]
  /\ Set(t, [Count(t) EXCEPT !.ret = 1, !.pc = "a_unlock"])
  /\ accepted' = Append(accepted, th[t].val)
  /\ UNCHANGED <<holder, lockView, ended>>
AUnlock(t) ==
  /\ th[t].pc = "a_unlock" /\ holder = t
  /\ holder' = 0 /\ lockView' = tv[t]
  /\ Set(t, [Count(t) EXCEPT !.pc = "u_ret"])
  /\ UNCHANGED <<mem, tv, accepted, ended>>
URet(t) ==
  /\ th[t].pc = "u_ret"
  /\ Set(t, [th[t] EXCEPT !.pc = "idle", !.rets = Append(@, <<th[t].val, th[t].ret>>)])
  /\ ended' = IF th[t].ret = 1 THEN ended \cup {th[t].val} ELSE ended
  /\ UNCHANGED <<mem, tv, holder, lockView, accepted>>

\* One action, labelled with thread, program counter and reads-from index (0 when not a load):
\* the labels of the dumped state graph drive the real code through hook H4.
Do(e) ==
  LET t == e.t  i == e.rf IN
  CASE e.a = "begin"   -> Begin(t) /\ i = 0
    [] e.a = "s_seq1"  -> SSeq1(t, i)
    [] e.a = "s_v"     -> SVoucher(t, i)
    [] e.a = "s_b"     -> SBase(t, i)
    [] e.a = "s_seq2"  -> SSeq2(t, i)
    [] e.a = "s_ret"   -> SRet(t) /\ i = 0
    [] e.a = "u_lock"  -> ULock(t) /\ i = 0
    [] e.a = "t_try"   -> TTry(t) /\ i = 0
    [] e.a = "a_seq"   -> ASeq(t, i)
    [] e.a = "a_v"     -> AVoucher(t, i)
    [] e.a = "a_b"     -> ABase(t, i)
    [] e.a = "a_sb"    -> AStoreBase(t) /\ i = 0
    [] e.a = "a_sv"    -> AStoreVoucher(t) /\ i = 0
    [] e.a = "a_sseq"  -> AStoreSeq(t) /\ i = 0
    [] e.a = "a_unlock" -> AUnlock(t) /\ i = 0
    [] e.a = "u_ret"   -> URet(t) /\ i = 0

Labels == {"begin", "s_seq1", "s_v", "s_b", "s_seq2", "s_ret", "u_lock", "t_try", "a_seq", "a_v", "a_b",
           "a_sb", "a_sv", "a_sseq", "a_unlock", "u_ret"}
MaxMsgs == 8      \* generous bound on message indices (1 initial + one per accepted update)
Events == [t : Threads, a : Labels, rf : 0..MaxMsgs]
Step(e) == /\ th[e.t].pc = (IF e.a = "begin" THEN "idle" ELSE e.a)
           /\ Do(e)
Next == \E e \in Events : Step(e)
Spec == Init /\ [][Next]_vars

\* ---- properties (C13) -----------------------------------------------------
\* a returned pair was passed as a unit to an accepted update, or is the epoch pair
NoTorn == \A t \in Threads : \A i \in 1..Len(th[t].results) :
             LET r == th[t].results[i] IN r[1] = r[2] /\ (r[1] = 0 \/ \E j \in 1..Len(accepted) : accepted[j] = r[1])
\* the pair about to be returned is already checkable (the real code asserts it before returning)
NoTornPending == \A t \in Threads : th[t].pc = "s_ret" => th[t].bb = th[t].vb
MonotonicPerThread == \A t \in Threads : \A i \in 1..(Len(th[t].results) - 1) :
                         th[t].results[i][1] <= th[t].results[i + 1][1]
\* accepted base times never decrease, an older update is refused, a newer-or-equal one accepted
OlderIgnored == /\ \A j \in 1..(Len(accepted) - 1) : accepted[j] <= accepted[j + 1]
                /\ \A t \in Threads : th[t].pc = "a_unlock" =>
                      LET last == IF th[t].ret = 1 THEN (IF Len(accepted) >= 2 THEN accepted[Len(accepted) - 1] ELSE 0)
                                  ELSE (IF accepted = << >> THEN 0 ELSE accepted[Len(accepted)])
                      IN (th[t].ret = 1) = (th[t].val >= last)
\* at least as recent as every update whose call returned before the snapshot was called
\* (real-time order: meaningful for the sequentially consistent interleavings)
RecentSC == SC => \A t \in Threads : \A i \in 1..Len(th[t].results) : th[t].results[i][1] >= th[t].results[i][3]
\* under release/acquire: at least as recent as the thread's own earlier accepted updates
RecentOwn == \A t \in Threads : \A i \in 1..Len(th[t].results) : th[t].results[i][1] >= th[t].results[i][4]

\* ---- properties (C18) -----------------------------------------------------
\* a snapshot never touches the lock: by construction no s_* action reads or writes holder.
\* A reader run alone terminates (writers may stall forever, even holding the lock):
ReaderSteps(t) == th[t].pc \in {"s_seq1", "s_v", "s_b", "s_seq2", "s_ret"}
ReaderNext == \E e \in Events : ReaderSteps(e.t) /\ th[e.t].pc = e.a /\ Step(e)
FairSpec == Spec /\ WF_vars(ReaderNext)
ReaderTerminates == \A t \in Threads : (ReaderSteps(t) ~> ~ReaderSteps(t))
\* a snapshot retries only because a write completed: its loads are bounded by the sequence stores
SnapshotBound == \A t \in Threads : ReaderSteps(t) => th[t].steps <= 1 + 3 * Len(mem["seq"])
\* try_update decides in one step of its own whether it got the lock
TryNoWait == \A t \in Threads : th[t].pc = "t_try" => th[t].steps = 0
=============================================================================
