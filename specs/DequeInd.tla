------------------------------ MODULE DequeInd ------------------------------
(* C15, unbounded part: the waste bound of SlidingDeque on the integer     *)
(* projection (container length n, consumed prefix k) is an INDUCTIVE      *)
(* invariant of the transcribed operations, for containers of any length   *)
(* and any advance count (checked symbolically by Apalache:                *)
(*   Init => IndInv            (--init=Init    --inv=IndInv --length=0)    *)
(*   IndInv /\ Next => IndInv' (--init=IndInit --inv=IndInv --length=1)).  *)
(* The operations are the same as IApply in Deque.tla, projected.          *)
EXTENDS Integers

VARIABLES
  \* @type: Int;
  n,
  \* @type: Int;
  k

\* maybe_slide / slide on the projection
\* @type: (Int, Int) => <<Int, Int>>;
MaybeSlide(len, c) == IF c > len \div 2 \/ len - c = 0 THEN <<len - c, 0>> ELSE <<len, c>>

Init == n = 0 /\ k = 0
IndInv == n >= 0 /\ k >= 0 /\ k <= n /\ 2 * k <= n /\ (n - k = 0 => k = 0)
IndInit == n \in Nat /\ k \in Nat /\ IndInv

Push == n' = n + 1 /\ k' = k
PopFront == IF n - k = 0 THEN UNCHANGED <<n, k>>
            ELSE LET r == MaybeSlide(n, k + 1) IN n' = r[1] /\ k' = r[2]
PopBack == IF n - k = 0 THEN UNCHANGED <<n, k>>
           ELSE LET r == MaybeSlide(n - 1, k) IN n' = r[1] /\ k' = r[2]
\* the pre-fix pop_back (finding F2): only resets when empty
PopBackBug == IF n - k = 0 THEN UNCHANGED <<n, k>>
              ELSE IF n - 1 - k = 0 THEN n' = 0 /\ k' = 0 ELSE n' = n - 1 /\ k' = k
Advance == \E c \in Nat :
             LET m == IF c <= n - k THEN c ELSE n - k
                 r == MaybeSlide(n, k + m)
             IN n' = r[1] /\ k' = r[2]
Clear == n' = 0 /\ k' = 0
Slide == n' = n - k /\ k' = 0

Next == Push \/ PopFront \/ PopBack \/ Advance \/ Clear \/ Slide
NextBug == Push \/ PopFront \/ PopBackBug \/ Advance \/ Clear \/ Slide
=============================================================================
