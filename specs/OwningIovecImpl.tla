-------------------------- MODULE OwningIovecImpl --------------------------
(***************************************************************************)
(* I-spec for C03 / C04 / C05 / C10 / C20: a transcription of              *)
(* owning_iovec/src/{implementation.rs, global_deque.rs, byte_arena/*}     *)
(* with tiny constants, model-checked in lockstep against the A-spec       *)
(* (IovecPipe.tla: a byte pipe with holes).                                *)
(*                                                                         *)
(* What is modelled: the slice deque ([where, off, len] records), the      *)
(* anchor deque ([count, chunk]), logical/consumed counters, the arena's   *)
(* allocation cache (bump pointer in the current chunk, chunk-size         *)
(* sequence), the pending-backref deque, push / push_copy / push_borrowed  *)
(* / optimize (try_join) / register_patch / backfill_or_panic /            *)
(* stable_prefix / consume / consume_by_bytes / push_anchor / read_n       *)
(* (environment-held AnchoredSlices) / clear / flush_cache /               *)
(* ensure_capacity / clone / take / drop.                                  *)
(* Liveness of a chunk is DERIVED (some allocation cache, anchor or held   *)
(* AnchoredSlice refers to it): Arc cannot be wrong, what can be wrong is  *)
(* when an Anchor is dropped.                                              *)
(* Every byte appended carries a fresh stamp, so order, duplication and    *)
(* offset errors are visible in the abstraction.                           *)
(***************************************************************************)
EXTENDS Naturals, Integers, Sequences, FiniteSets, TLC

CONSTANTS SMALL,        \* SMALL_COPY (64 in the code)
          OPP,          \* MAX_OPPORTUNISTIC_COPY (256)
          ChunkSizes,   \* BUMP_REGION_SIZE_SEQUENCE (4096, 8192, ..., 1 MiB)
          PushSizes,    \* sizes of pushed data
          MaxObjs, Budget,
          BugAnchor     \* TRUE: consume() drops every zero-count anchor (a seeded change), for the vacuity guard

Objs == 1..MaxObjs
NoChunk == 0
HOLE(id) == 0 - id            \* cell value of an unfilled placeholder byte
FILL(id) == 1000 + id

VARIABLES obj,      \* Objs -> object record or Dead
          chunks,   \* sequence of [cap, cells]; chunk ids are indices, never reused
          held,     \* set of AnchoredSlices the environment holds: [chunk, off, len]
          tokens,   \* outstanding Backref capabilities: [o, end, slice, begin, len, id]
          stamp,    \* next fresh byte value
          nreg,     \* number of placeholders registered so far (placeholder ids are 1, 2, ...)
          nheld,    \* number of AnchoredSlices handed to the environment so far (their ids)
          budget,
          abs       \* the A-spec: Objs -> [buf (sequence of cells), pend (set of ids)]  (lockstep)
vars == <<obj, chunks, held, tokens, stamp, nreg, nheld, budget, abs>>

Dead == [alive |-> FALSE]
Fresh == [alive |-> TRUE, slices |-> << >>, anchors |-> << >>, logical |-> 0, cbytes |-> 0, cslices |-> 0,
          cache |-> [chunk |-> NoChunk, bump |-> 0], backrefs |-> << >>]

IMin(a, b) == IF a <= b THEN a ELSE b
IMax(a, b) == IF a >= b THEN a ELSE b
ILast(s) == s[Len(s)]
IButLast(s) == SubSeq(s, 1, Len(s) - 1)
RECURSIVE ISum(_)
ISum(s) == IF s = << >> THEN 0 ELSE s[1] + ISum(Tail(s))

Init == /\ obj = [o \in Objs |-> IF o = 1 THEN Fresh ELSE Dead]
        /\ chunks = << >> /\ held = {} /\ tokens = {} /\ stamp = 1 /\ nreg = 0 /\ nheld = 0 /\ budget = Budget
        /\ abs = [o \in Objs |-> [buf |-> << >>, pend |-> {}]]

\* ---- derived: who keeps a chunk alive ------------------------------------
LiveChunk(c) ==
  \/ \E o \in Objs : obj[o].alive /\ obj[o].cache.chunk = c
  \/ \E o \in Objs : obj[o].alive /\ \E i \in 1..Len(obj[o].anchors) : obj[o].anchors[i].chunk = c
  \/ \E h \in held : h.chunk = c

\* ---- content ---------------------------------------------------------------
\* (pure versions take the object record and the chunk table, so that other modules can compose them)
SliceCellsP(chs, s) == IF s.w = NoChunk THEN s.ext ELSE SubSeq(chs[s.w].cells, s.off + 1, s.off + s.len)
RECURSIVE CatCellsP(_, _, _)
CatCellsP(chs, ss, i) == IF i > Len(ss) THEN << >> ELSE SliceCellsP(chs, ss[i]) \o CatCellsP(chs, ss, i + 1)
BytesP(ob, chs) == CatCellsP(chs, ob.slices, 1)
SliceCells(s) == SliceCellsP(chunks, s)
CatCells(ss, i) == CatCellsP(chunks, ss, i)
Bytes(o) == BytesP(obj[o], chunks)                            \* abstraction function to IovecPipe's buf

\* stable_prefix: slices before the slice holding the earliest pending backref
FirstLive(brs) == LET I == {i \in 1..Len(brs) : brs[i].live} IN IF I = {} THEN 0 ELSE CHOOSE i \in I : \A j \in I : i <= j
StableCount(ob) ==
  LET f == FirstLive(ob.backrefs) IN
  IF f = 0 THEN Len(ob.slices)
  ELSE IMin(IMax(ob.backrefs[f].slice - ob.cslices, 0), Len(ob.slices))
StableBytesP(ob, chs) == CatCellsP(chs, SubSeq(ob.slices, 1, StableCount(ob)), 1)
StableBytes(o) == StableBytesP(obj[o], chunks)

\* ---- the arena ---------------------------------------------------------------
RemainingP(ob, chs) == IF ob.cache.chunk = NoChunk THEN 0 ELSE chs[ob.cache.chunk].cap - ob.cache.bump
MaxSeq == ChunkSizes[Len(ChunkSizes)]
HintSize(len, prev) ==
  IF len >= MaxSeq THEN ((len + ChunkSizes[1] - 1) \div ChunkSizes[1]) * ChunkSizes[1]
  ELSE IF prev >= MaxSeq THEN MaxSeq
  ELSE LET wanted == IMax(prev + 1, len)
           I == {i \in 1..Len(ChunkSizes) : ChunkSizes[i] >= wanted}
       IN IF I = {} THEN MaxSeq ELSE ChunkSizes[CHOOSE i \in I : \A j \in I : i <= j]

\* ensure_capacity_internal(len): returns [cache, chunks]
Ensure(ob, chs, len) ==
  IF ob.cache.chunk # NoChunk /\ chs[ob.cache.chunk].cap - ob.cache.bump >= len THEN [cache |-> ob.cache, chunks |-> chs]
  ELSE LET prev == IF ob.cache.chunk = NoChunk THEN 0 ELSE chs[ob.cache.chunk].cap
           cap == IMax(HintSize(len, prev), len)
           id == Len(chs) + 1
       IN [cache |-> [chunk |-> id, bump |-> 0], chunks |-> Append(chs, [cap |-> cap, cells |-> [i \in 1..cap |-> 0]])]

\* alloc(len, old_anchor = the last anchor or none): returns [cache, chunks, slice, merged (count the old anchor), newAnchor]
Alloc(ob, chs, len, useLast) ==
  LET e == Ensure(ob, chs, len)
      c == e.cache.chunk
      merged == useLast /\ ob.anchors # << >> /\ ILast(ob.anchors).chunk = c
  IN [cache |-> [chunk |-> c, bump |-> e.cache.bump + len], chunks |-> e.chunks,
      slice |-> [w |-> c, off |-> e.cache.bump, len |-> len, ext |-> << >>], merged |-> merged]

WriteCells(chs, c, off, cells) ==
  [chs EXCEPT ![c].cells = [i \in 1..Len(@) |-> IF i > off /\ i <= off + Len(cells) THEN cells[i - off] ELSE @[i]]]

\* ---- GlobalDeque / OwningIovec operations on one object record ---------------
\* maybe_collapse_last_pair with try_join (both slices inside the current cache's chunk and adjacent)
Optimize(ob) ==
  LET n == Len(ob.slices) IN
  IF n < 2 \/ ob.anchors = << >> \/ ILast(ob.anchors).count < 2 THEN ob
  ELSE LET a == ob.slices[n - 1]
           b == ob.slices[n]
           inCache(s) == s.w # NoChunk /\ s.w = ob.cache.chunk
       IN IF inCache(a) /\ inCache(b) /\ a.off + a.len = b.off
            THEN [ob EXCEPT !.slices = SubSeq(@, 1, n - 2) \o <<[a EXCEPT !.len = a.len + b.len]>>,
                            !.anchors = IButLast(@) \o <<[ILast(@) EXCEPT !.count = @ - 1]>>]
          ELSE ob

PushCopy(ob, chs, cells) ==       \* returns [ob, chunks]
  LET al == Alloc(ob, chs, Len(cells), TRUE)
      anchors2 == IF al.merged THEN IButLast(ob.anchors) \o <<[ILast(ob.anchors) EXCEPT !.count = @ + 1]>>
                  ELSE Append(ob.anchors, [count |-> 1, chunk |-> al.slice.w])
      ob2 == [ob EXCEPT !.cache = al.cache, !.slices = Append(@, al.slice), !.anchors = anchors2,
                        !.logical = @ + Len(cells)]
  IN [ob |-> Optimize(ob2), chunks |-> WriteCells(al.chunks, al.slice.w, al.slice.off, cells)]

PushBorrowedSlice(ob, s) ==        \* GlobalDeque::push_borrowed + optimize
  LET anchors1 == IF ob.anchors = << >> THEN <<[count |-> 0, chunk |-> NoChunk]>> ELSE ob.anchors
      anchors2 == IButLast(anchors1) \o <<[ILast(anchors1) EXCEPT !.count = @ + 1]>>
  IN Optimize([ob EXCEPT !.slices = Append(@, s), !.anchors = anchors2, !.logical = @ + s.len])

IsLast(ob, s) == s.w # NoChunk /\ s.w = ob.cache.chunk /\ s.off + s.len = ob.cache.bump

Push(ob, chs, cells) ==           \* OwningIovec::push: copy small or appendable, else borrow
  LET small == Len(cells) <= SMALL
      appendable == Len(cells) <= OPP /\ RemainingP(ob, chs) >= Len(cells) /\ ob.slices # << >> /\ IsLast(ob, ILast(ob.slices))
  IN IF small \/ appendable THEN PushCopy(ob, chs, cells)
     ELSE [ob |-> PushBorrowedSlice(ob, [w |-> NoChunk, off |-> 0, len |-> Len(cells), ext |-> cells]), chunks |-> chs]

\* GlobalDeque::consume(count): BugAnchor = the retain() variant
Consume(ob, count) ==
  LET n == IMin(count, Len(ob.slices))
      RECURSIVE Drain(_, _)
      Drain(as, k) == IF k = 0 \/ as = << >> THEN as
                      ELSE LET take == IMin(as[1].count, k) IN
                           IF as[1].count - take = 0 THEN Drain(Tail(as), k - take)
                           ELSE <<[as[1] EXCEPT !.count = @ - take]>> \o Tail(as)
      RECURSIVE DropZeros(_)
      DropZeros(as) == IF as # << >> /\ as[1].count = 0 THEN DropZeros(Tail(as)) ELSE as
      drained == Drain(ob.anchors, n)
      swept == IF BugAnchor THEN SelectSeq(drained, LAMBDA a : a.count > 0) ELSE DropZeros(drained)
  IN [ob EXCEPT !.cbytes = @ + ISum([i \in 1..n |-> ob.slices[i].len]), !.cslices = @ + n,
                !.slices = SubSeq(@, n + 1, Len(@)), !.anchors = swept]

RECURSIVE ConsumeBytes(_, _)
ConsumeBytes(ob, count) ==
  IF count = 0 \/ ob.slices = << >> THEN ob
  ELSE LET s == ob.slices[1] IN
       IF s.len <= count THEN ConsumeBytes(Consume(ob, 1), count - s.len)
       ELSE [ob EXCEPT !.slices = <<[s EXCEPT !.off = @ + count, !.len = @ - count,
                                            !.ext = IF s.w = NoChunk THEN SubSeq(@, count + 1, Len(@)) ELSE @]>> \o Tail(@),
                       !.cbytes = @ + count]

\* SortedDeque::remove on the backref deque (tombstones in the middle, sweep at the ends)
RemoveBackref(brs, end) ==
  LET marked == [i \in 1..Len(brs) |-> IF brs[i].end = end THEN [brs[i] EXCEPT !.live = FALSE] ELSE brs[i]]
      RECURSIVE TrimF(_)
      TrimF(q) == IF q # << >> /\ ~q[1].live THEN TrimF(Tail(q)) ELSE q
      RECURSIVE TrimB(_)
      TrimB(q) == IF q # << >> /\ ~ILast(q).live THEN TrimB(IButLast(q)) ELSE q
  IN TrimB(TrimF(marked))

\* ---- actions -----------------------------------------------------------------
Alive(o) == obj[o].alive
Spend == budget > 0 /\ budget' = budget - 1
Stamps(n) == [i \in 1..n |-> stamp + i - 1]
AbsAppend(o, cells) == abs' = [abs EXCEPT ![o].buf = @ \o cells]

DoPush(o, n, how) ==
  /\ Spend /\ Alive(o)
  /\ LET cells == Stamps(n)
         r == CASE how = "auto" -> Push(obj[o], chunks, cells)
                [] how = "copy" -> PushCopy(obj[o], chunks, cells)
                [] how = "borrow" -> [ob |-> PushBorrowedSlice(obj[o], [w |-> NoChunk, off |-> 0, len |-> n, ext |-> cells]),
                                      chunks |-> chunks]
     IN obj' = [obj EXCEPT ![o] = r.ob] /\ chunks' = r.chunks /\ AbsAppend(o, cells)
  /\ stamp' = stamp + n /\ UNCHANGED <<held, tokens, nreg, nheld>>

\* arena().read_n(n) then push_borrowed(slice) + push_anchor(anchor): the hcobs pattern
DoPushAnchored(o, n) ==
  /\ Spend /\ Alive(o)
  /\ LET cells == Stamps(n)
         al == Alloc(obj[o], chunks, n, FALSE)
         ob1 == [obj[o] EXCEPT !.cache = al.cache]
         ob2 == PushBorrowedSlice(ob1, al.slice)
         ob3 == [ob2 EXCEPT !.anchors = Append(@, [count |-> 0, chunk |-> al.slice.w])]
     IN obj' = [obj EXCEPT ![o] = ob3] /\ chunks' = WriteCells(al.chunks, al.slice.w, al.slice.off, cells) /\ AbsAppend(o, cells)
  /\ stamp' = stamp + n /\ UNCHANGED <<held, tokens, nreg, nheld>>

\* arena().read_n(n), the AnchoredSlice stays with the environment
DoHold(o, n) ==
  /\ Spend /\ Alive(o) /\ Cardinality(held) < 2
  /\ LET al == Alloc(obj[o], chunks, n, FALSE) IN
     /\ obj' = [obj EXCEPT ![o].cache = al.cache]
     /\ chunks' = WriteCells(al.chunks, al.slice.w, al.slice.off, Stamps(n))
     /\ held' = held \cup {[id |-> nheld + 1, chunk |-> al.slice.w, off |-> al.slice.off, len |-> n, cells |-> Stamps(n)]}
  /\ stamp' = stamp + n /\ nheld' = nheld + 1 /\ UNCHANGED <<tokens, abs, nreg>>
\* a short read: read_n allocates n bytes, the reader delivers only got < n, the tail is released (bump moves back)
DoHoldShort(o, n, got) ==
  /\ Spend /\ Alive(o) /\ Cardinality(held) < 2 /\ got < n
  /\ LET al == Alloc(obj[o], chunks, n, FALSE)
         cache2 == [al.cache EXCEPT !.bump = al.slice.off + got]          \* release_or_die(remainder)
     IN /\ obj' = [obj EXCEPT ![o].cache = cache2]
        /\ chunks' = WriteCells(al.chunks, al.slice.w, al.slice.off, Stamps(got))
        /\ held' = IF got = 0 THEN held       \* an empty AnchoredSlice still carries the anchor in the code; it is dropped at once here
                   ELSE held \cup {[id |-> nheld + 1, chunk |-> al.slice.w, off |-> al.slice.off, len |-> got, cells |-> Stamps(got)]}
  /\ stamp' = stamp + got /\ nheld' = nheld + 1 /\ UNCHANGED <<tokens, abs, nreg>>
\* consumer().take_arena() / swap_arena between two objects
DoSwapArena(o, q) ==
  /\ Spend /\ Alive(o) /\ Alive(q) /\ o # q
  /\ obj' = [obj EXCEPT ![o].cache = obj[q].cache, ![q].cache = obj[o].cache]
  /\ UNCHANGED <<chunks, held, tokens, stamp, nreg, nheld, abs>>
DoRelease(h) == /\ Spend /\ h \in held /\ held' = held \ {h} /\ UNCHANGED <<obj, chunks, tokens, stamp, nreg, nheld, abs>>

\* register_patch(pattern of n bytes) as a pure operator: returns [ob, chunks, tok]
RegisterOp(ob0, chs, n, id, cells) ==
  LET r == PushCopy(ob0, chs, cells)
      ob == r.ob
      info == [end |-> ob.logical, slice |-> ob.cslices + Len(ob.slices) - 1, begin |-> ILast(ob.slices).len - n,
               len |-> n, live |-> TRUE]
  IN [ob |-> [ob EXCEPT !.backrefs = Append(@, info)], chunks |-> r.chunks,
      tok |-> [end |-> info.end, slice |-> info.slice, begin |-> info.begin, len |-> n, id |-> id]]

\* backfill_or_panic as a pure operator: returns [ok (the code's asserts hold), ob, chunks]
BackfillOp(ob, chs, t, fill) ==
  LET idx == t.slice - ob.cslices + 1
      found == \E i \in 1..Len(ob.backrefs) : ob.backrefs[i].end = t.end /\ ob.backrefs[i].live
      inrange == idx >= 1 /\ idx <= Len(ob.slices)
      s == ob.slices[idx]
      ok == found /\ inrange /\ s.w # NoChunk /\ t.begin + t.len <= s.len
  IN [ok |-> ok,
      ob |-> IF ok THEN [ob EXCEPT !.backrefs = RemoveBackref(@, t.end)] ELSE ob,
      chunks |-> IF ok THEN WriteCells(chs, s.w, s.off + t.begin, fill) ELSE chs]

DoRegister(o, n) ==
  /\ Spend /\ Alive(o) /\ Cardinality({t \in tokens : t.o = o}) < 3
  /\ LET id == nreg + 1
         cells == [i \in 1..n |-> HOLE(id)]
         r == RegisterOp(obj[o], chunks, n, id, cells)
     IN /\ obj' = [obj EXCEPT ![o] = r.ob]
        /\ chunks' = r.chunks
        /\ tokens' = tokens \cup {[o |-> o, end |-> r.tok.end, slice |-> r.tok.slice, begin |-> r.tok.begin, len |-> n, id |-> id]}
        /\ abs' = [abs EXCEPT ![o].buf = @ \o cells, ![o].pend = @ \cup {id}]
  /\ nreg' = nreg + 1 /\ UNCHANGED <<held, stamp, nheld>>

DoBackfill(t) ==
  /\ Spend /\ t \in tokens /\ Alive(t.o)
  /\ LET r == BackfillOp(obj[t.o], chunks, t, [i \in 1..t.len |-> FILL(t.id)]) IN
     /\ r.ok                                                   \* else the code panics
     /\ chunks' = r.chunks
     /\ obj' = [obj EXCEPT ![t.o] = r.ob]
  /\ tokens' = tokens \ {t}
  /\ abs' = [abs EXCEPT ![t.o].buf = [i \in 1..Len(@) |-> IF @[i] = HOLE(t.id) THEN FILL(t.id) ELSE @[i]], ![t.o].pend = @ \ {t.id}]
  /\ UNCHANGED <<held, stamp, nreg, nheld>>

DoConsume(o, k) ==       \* ConsumingIovec::consume(k)
  /\ Spend /\ Alive(o)
  /\ LET n == IMin(k, StableCount(obj[o]))
         nb == ISum([i \in 1..n |-> obj[o].slices[i].len])
     IN obj' = [obj EXCEPT ![o] = Consume(@, n)] /\ abs' = [abs EXCEPT ![o].buf = SubSeq(@, nb + 1, Len(@))]
  /\ UNCHANGED <<chunks, held, tokens, stamp, nreg, nheld>>

DoAdvance(o, k) ==       \* ConsumingIovec::advance_slices(k)
  /\ Spend /\ Alive(o)
  /\ LET nb == IMin(k, Len(StableBytes(o))) IN
     obj' = [obj EXCEPT ![o] = ConsumeBytes(@, nb)] /\ abs' = [abs EXCEPT ![o].buf = SubSeq(@, nb + 1, Len(@))]
  /\ UNCHANGED <<chunks, held, tokens, stamp, nreg, nheld>>

DoClear(o) ==
  /\ Spend /\ Alive(o)
  /\ obj' = [obj EXCEPT ![o] = [Fresh EXCEPT !.cache = obj[o].cache]]
  /\ tokens' = {t \in tokens : t.o # o} /\ abs' = [abs EXCEPT ![o] = [buf |-> << >>, pend |-> {}]]
  /\ UNCHANGED <<chunks, held, stamp, nreg, nheld>>
DoFlush(o) == /\ Spend /\ Alive(o) /\ obj' = [obj EXCEPT ![o].cache = [chunk |-> NoChunk, bump |-> 0]]
              /\ UNCHANGED <<chunks, held, tokens, stamp, nreg, nheld, abs>>
DoEnsure(o, n) == /\ Spend /\ Alive(o)
                  /\ LET e == Ensure(obj[o], chunks, n) IN obj' = [obj EXCEPT ![o].cache = e.cache] /\ chunks' = e.chunks
                  /\ UNCHANGED <<held, tokens, stamp, nreg, nheld, abs>>
DoClone(o, q) ==
  /\ Spend /\ Alive(o) /\ ~Alive(q) /\ abs[o].pend = {}
  /\ obj' = [obj EXCEPT ![q] = [obj[o] EXCEPT !.cache = [chunk |-> NoChunk, bump |-> 0]]]        \* ByteArena::clone: no cache
  /\ abs' = [abs EXCEPT ![q] = abs[o]]
  /\ UNCHANGED <<chunks, held, tokens, stamp, nreg, nheld>>
DoTake(o, q) ==
  /\ Spend /\ Alive(o) /\ ~Alive(q)
  /\ obj' = [obj EXCEPT ![q] = obj[o], ![o] = Fresh]
  /\ tokens' = {IF t.o = o THEN [t EXCEPT !.o = q] ELSE t : t \in tokens}
  /\ abs' = [abs EXCEPT ![q] = abs[o], ![o] = [buf |-> << >>, pend |-> {}]]
  /\ UNCHANGED <<chunks, held, stamp, nreg, nheld>>
DoDrop(o) ==
  /\ Spend /\ Alive(o) /\ obj' = [obj EXCEPT ![o] = Dead] /\ tokens' = {t \in tokens : t.o # o}
  /\ abs' = [abs EXCEPT ![o] = [buf |-> << >>, pend |-> {}]]
  /\ UNCHANGED <<chunks, held, stamp, nreg, nheld>>

\* (quantified over constant id ranges so that TLC labels the edges of the dumped graph with the arguments)
DoReleaseId(id) == \E h \in held : h.id = id /\ DoRelease(h)
DoBackfillId(id) == \E t \in tokens : t.id = id /\ DoBackfill(t)

Next ==
  \/ \E o \in Objs, n \in PushSizes, how \in {"auto", "copy", "borrow"} : DoPush(o, n, how)
  \/ \E o \in Objs, n \in PushSizes : DoPushAnchored(o, n) \/ DoHold(o, n)
  \/ \E id \in 1..2 : DoReleaseId(id)
  \/ \E o \in Objs, n \in {1, 2} : DoRegister(o, n)
  \/ \E id \in 1..4 : DoBackfillId(id)
  \/ \E o \in Objs, k \in {1, 2, 9} : DoConsume(o, k) \/ DoAdvance(o, k)
  \/ \E o \in Objs : DoClear(o) \/ DoFlush(o) \/ DoDrop(o) \/ DoEnsure(o, 3)
  \/ \E o, q \in Objs : DoClone(o, q) \/ DoTake(o, q) \/ DoSwapArena(o, q)
  \/ \E o \in Objs, got \in {0, 1} : DoHoldShort(o, 3, got)
Spec == Init /\ [][Next]_vars

\* ---- invariants ----------------------------------------------------------------
\* C03: the transcription refines the byte pipe (content, order, fills), total_size is right
Refines == \A o \in Objs : Alive(o) =>
             /\ Bytes(o) = abs[o].buf
             /\ obj[o].logical - obj[o].cbytes = Len(abs[o].buf)
             /\ \A i \in 1..Len(obj[o].slices) : obj[o].slices[i].len > 0
\* C04: the stable view stops before the earliest pending placeholder, and covers everything when none is pending
HoleFree(cells) == \A i \in 1..Len(cells) : cells[i] > 0
StableOK == \A o \in Objs : Alive(o) =>
             /\ HoleFree(StableBytes(o))
             /\ (abs[o].pend = {}) = (FirstLive(obj[o].backrefs) = 0)
             /\ abs[o].pend = {} => StableBytes(o) = abs[o].buf
\* C05: every buffered slice and every held AnchoredSlice points into a chunk somebody keeps alive, in bounds
SlicesLive == /\ \A o \in Objs : Alive(o) => \A i \in 1..Len(obj[o].slices) :
                    LET s == obj[o].slices[i] IN s.w # NoChunk => (LiveChunk(s.w) /\ s.off + s.len <= chunks[s.w].cap)
              /\ \A h \in held : SubSeq(chunks[h.chunk].cells, h.off + 1, h.off + h.len) = h.cells
\* bytes handed out from the arena never overlap (distinct owned allocations)
NoOverlap == \A o \in Objs : Alive(o) => \A i, j \in 1..Len(obj[o].slices) :
               LET a == obj[o].slices[i]  b == obj[o].slices[j] IN
               (i < j /\ a.w # NoChunk /\ a.w = b.w) => (a.off + a.len <= b.off \/ b.off + b.len <= a.off)
\* structural invariants the algorithm relies on
AnchorSum == \A o \in Objs : Alive(o) =>
               /\ ISum([i \in 1..Len(obj[o].anchors) |-> obj[o].anchors[i].count]) = Len(obj[o].slices)
               /\ (obj[o].slices = << >>) => \A i \in 1..Len(obj[o].anchors) : obj[o].anchors[i].count = 0
BackrefTargets == \A t \in tokens : Alive(t.o) =>
               LET idx == t.slice - obj[t.o].cslices + 1 IN
               /\ idx >= 1 /\ idx <= Len(obj[t.o].slices)
               /\ LET s == obj[t.o].slices[idx] IN
                  s.w # NoChunk /\ t.begin + t.len <= s.len /\
                  \A i \in 1..t.len : chunks[s.w].cells[s.off + t.begin + i] = HOLE(t.id)
\* C10: a chunk no slice, cache or held AnchoredSlice refers to is not kept alive by a leftover anchor
Referenced(c) == \/ \E o \in Objs : Alive(o) /\ (obj[o].cache.chunk = c \/ \E i \in 1..Len(obj[o].slices) : obj[o].slices[i].w = c)
                 \/ \E h \in held : h.chunk = c
NoStuckAnchor == \A c \in 1..Len(chunks) : (LiveChunk(c) /\ ~Referenced(c)) =>
                    \* allowed only while slices protected by a trailing zero-count anchor are still buffered in front of it
                    \E o \in Objs : Alive(o) /\ obj[o].slices # << >>
NoLeakAtEnd == (\A o \in Objs : ~Alive(o)) /\ held = {} => \A c \in 1..Len(chunks) : ~LiveChunk(c)
=============================================================================
