------------------------------- MODULE ReadN -------------------------------
(***************************************************************************)
(* C17: ByteArena::read_n (and Encoder/Decoder::read_n, encode_read,       *)
(* decode_read) under arbitrary reader behaviour.                          *)
(*                                                                         *)
(* A reader script is a sequence of responses:                             *)
(*    k > 0 : deliver up to k bytes (never more than requested)            *)
(*    0     : end of file          -1 : ErrorKind::Interrupted             *)
(*    -2, -3: two different hard errors                                    *)
(* A script that runs out answers end of file.  Delivered bytes are        *)
(* numbered 1, 2, 3, ... so that order and duplication are visible.        *)
(*                                                                         *)
(* A-spec: the result *declared* from the script (no loop state);          *)
(* I-spec: the retry loop of read_n_impl as a step machine.                *)
(***************************************************************************)
EXTENDS Naturals, Integers, Sequences, FiniteSets

EOF_ == 0
EINTR == -1

RMin(a, b) == IF a <= b THEN a ELSE b
Resp(script, i) == IF i <= Len(script) THEN script[i] ELSE EOF_

\* bytes delivered by the first i responses when `count` bytes are wanted
RECURSIVE Delivered(_, _, _)
Delivered(script, count, i) ==
  IF i = 0 THEN 0
  ELSE LET before == Delivered(script, count, i - 1)
           r == Resp(script, i)
       IN IF r > 0 THEN before + RMin(r, count - before) ELSE before

\* the call that ends the loop: the first i such that response i is EOF or a hard error, or the
\* delivered total reaches count, or i = attempts
Stops(script, count, attempts, i) ==
  \/ i = attempts
  \/ Resp(script, i) = EOF_ \/ Resp(script, i) < EINTR
  \/ Delivered(script, count, i) = count

NumCalls(script, count, attempts) ==
  IF count = 0 THEN 0
  ELSE CHOOSE i \in 1..attempts : Stops(script, count, attempts, i) /\ \A j \in 1..(i - 1) : ~Stops(script, count, attempts, j)

\* A-spec result: [calls |-> sequence of requested sizes, got |-> number of bytes returned (they are
\* bytes 1..got in order), err |-> 0 for Ok, else the error code]
LastErr(script, n) ==       \* the last error among the first n responses, 0 if none since ... (only used when got = 0)
  IF n = 0 THEN 0 ELSE Resp(script, n)

Expected(script, count, attempts) ==
  LET n == NumCalls(script, count, attempts)
      got == Delivered(script, count, n)
      last == Resp(script, n)
  IN [calls |-> [i \in 1..n |-> count - Delivered(script, count, i - 1)],
      got |-> got,
      \* Ok whenever a byte was delivered or end of file ended the loop; otherwise the last error
      \* (a hard error, or Interrupted when every attempt was interrupted)
      err |-> IF n = 0 \/ got > 0 \/ last = EOF_ THEN 0 ELSE last]

(***************************************************************************)
(* I-spec: read_n / read_n_impl transcribed.  State of the loop:           *)
(* [i (calls made), got, err (0 = None), done].                            *)
(***************************************************************************)
LoopInit == [i |-> 0, got |-> 0, err |-> 0, done |-> FALSE, calls |-> << >>]

LoopStep(st, script, count, attempts) ==
  IF st.done \/ st.i = attempts THEN [st EXCEPT !.done = TRUE]
  ELSE LET req == count - st.got
           r == Resp(script, st.i + 1)
           st1 == [st EXCEPT !.i = @ + 1, !.calls = Append(@, req)]
       IN IF r > 0 THEN
               LET n == RMin(r, req)
                   st2 == [st1 EXCEPT !.got = @ + n] IN
               IF st2.got = count THEN [st2 EXCEPT !.done = TRUE] ELSE st2
          ELSE IF r = EOF_ THEN [st1 EXCEPT !.err = 0, !.done = TRUE]
          ELSE IF r = EINTR THEN [st1 EXCEPT !.err = EINTR]
          ELSE [st1 EXCEPT !.err = r, !.done = TRUE]

RECURSIVE LoopRun(_, _, _, _)
LoopRun(st, script, count, attempts) ==
  IF st.done \/ st.i = attempts THEN st ELSE LoopRun(LoopStep(st, script, count, attempts), script, count, attempts)

ImplResult(script, count, attempts) ==
  IF count = 0 THEN [calls |-> << >>, got |-> 0, err |-> 0]
  ELSE LET st == LoopRun(LoopInit, script, count, attempts) IN
       [calls |-> st.calls, got |-> st.got, err |-> IF st.got = 0 /\ st.err # 0 THEN st.err ELSE 0]
=============================================================================
