----------------------------- MODULE HcobsTrace -----------------------------
(***************************************************************************)
(* Trace validation for the HCOBS codec: C01 (round trip), C02 (no stuff   *)
(* sequence, split independence, length bound), C07 (canonical wire        *)
(* format / exact decoder), C09 (drained output is a prefix of the result, *)
(* bounded lag), plus the arena no-leak monitor of C10 at run end.         *)
(*                                                                         *)
(* Every event recorded from the real Encoder / Decoder (production        *)
(* limits) or from the tiny-limit entry points of hook H3 is checked       *)
(* against the pure format definition of HcobsFormat.tla, evaluated by     *)
(* TLC with the limits given literally in the trace's reset event (they    *)
(* come from the generator, not from the code under test).                 *)
(***************************************************************************)
EXTENDS FiniteSets, HcobsCodec, TLC, Json, IOUtils

CONSTANTS RADIX,        \* 253, literally
          MaxArenaChunk \* 1048576: the lag bound of C09 is one arena chunk + one chunk + header

Rec == ndJsonDeserialize(IOEnv.TRACE)

VARIABLES l, failed, viol,
          drift,   \* I-level disagreements (transcribed state machines of HcobsCodec.tla vs the observed counts)
          st,      \* per-run model state (record, see NewRun)
          outs     \* [iid, input, out]: first encoder output of the current group of runs with the same
                   \* input id (the generator makes runs with equal iid > 0 adjacent) (C02)
vars == <<l, failed, viol, drift, st, outs>>

NewRun(e) == [kind |-> e.kind, ph |-> IF e.kind = "dec" THEN "dec" ELSE "enc",
              L1 |-> e.l1, L2 |-> e.l2, iid |-> e.iid,
              pre |-> e.pre,              \* bytes that were already in the OwningIovec given to new_from_iovec
              preHole |-> e.pre_hole,     \* ... of which the first preHole are a placeholder the caller fills after finish
              input |-> e.input,          \* what is fed in the current phase
              plain |-> e.input,          \* the plain bytes of an "enc"/"rt" run
              pos |-> 0,                  \* bytes fed so far
              vis |-> << >>,              \* longest prefix of the output observed so far
              D |-> 0,                    \* bytes drained so far
              nd |-> 0,                   \* drain calls so far (a consumer is reading along)
              total |-> 0, stable |-> 0,  \* last observation
              \* I-spec shadow (short inputs only): the transcribed encoder / decoder state machines run on the same pieces
              ist |-> [on |-> Len(e.input) <= 1000, enc |-> EncNew(e.l1), dec |-> DecNew],
              live0 |-> e.live, chunks0 |-> e.chunks]

\* keep the violation set small (per property): a broken build can fail tens of thousands of runs
CapViol(v, new) == v \cup {x \in new : Cardinality({y \in v : y.prop = x.prop}) < 25}

Init == l = 1 /\ failed = FALSE /\ viol = {} /\ drift = {} /\ outs = [iid |-> 0, input |-> << >>, out |-> << >>] /\
        st = [kind |-> "none", ph |-> "none", L1 |-> 1, L2 |-> 1, iid |-> 0, pre |-> << >>, preHole |-> 0, input |-> << >>,
              plain |-> << >>, pos |-> 0, vis |-> << >>, D |-> 0, nd |-> 0, total |-> 0, stable |-> 0,
              ist |-> [on |-> FALSE, enc |-> EncNew(1), dec |-> DecNew], live0 |-> 0, chunks0 |-> 0]

V(prop, what) == {<<prop, what>>}
When(c, S) == IF c THEN S ELSE {}

\* (while the caller's own placeholder at the head of the iovec is pending nothing is consumable: no bound applies)
LagBound(s) == IF s.preHole > 0 THEN 2000000000 ELSE IF s.ph = "enc" THEN MaxArenaChunk + s.L2 + 2 ELSE 0

\* Observation after any feed/drain event: counts, lag, and (when logged in full) the visible
\* bytes, which must be consistent with everything observed before (a byte once observed
\* never changes) -- all attributed to C09.
ObsCheck(s, e, Dnew) ==
     When(e.dangling > 0, V("C05", "a slice exposed by the codec's consumer does not lie in a live arena chunk or the lent input"))
\cup When(e.total < e.stable, V("C09", "stable bytes exceed total_size"))
\cup When(e.total - e.stable > LagBound(s), V("C09", "lag (produced but not consumable) exceeds the bound"))
\cup When(s.ph = "dec" /\ e.pending = 1 /\ s.preHole = 0, V("C09", "decoder has a pending backpatch (non-zero lag)"))
\cup When(s.preHole > 0 /\ e.stable > 0,
          V("C09", "bytes are consumable although a placeholder registered earlier in the same OwningIovec is still pending"))
\cup When(e.empty_slice = 1, V("C09", "an exposed slice is empty"))
\cup When(e.full = 1 /\ Len(e.sb) # e.stable, V("C09", "stable byte count differs from the stable slices"))
\cup When(e.full = 1 /\
          LET have == Len(s.vis) - Dnew                       \* bytes already seen beyond the drain point
              n == HMin(have, Len(e.sb))
          IN SubSeq(e.sb, 1, n) # SubSeq(s.vis, Dnew + 1, Dnew + n),
          V("C09", "bytes visible through the consumer changed (not a prefix of what was visible before)"))

VisAfter(s, e, Dnew) ==
  IF e.full = 1 /\ Dnew + Len(e.sb) > Len(s.vis)
  THEN SubSeq(s.vis, 1, Dnew) \o e.sb ELSE s.vis

\* the I-spec shadow consumes the piece the codec was given
IFeed(s, e) ==
  IF ~s.ist.on \/ e.panic # "" \/ e.n = 0 THEN s.ist
  ELSE LET piece == SubSeq(s.input, s.pos + 1, s.pos + e.n) IN
       IF s.ph = "enc" THEN [s.ist EXCEPT !.enc = EncFeed(@, piece, s.L2, RADIX)]
       ELSE [s.ist EXCEPT !.dec = DecFeed(@, piece, s.L1, s.L2, RADIX)]

\* ... and must agree with the real one on how much was appended and how much of it is consumable
\* (s0 / s1: model state before / after the feed event e)
FeedDrift(s0, s1, e) ==
  IF e.ev # "feed" \/ ~s1.ist.on \/ e.panic # "" THEN {}
  ELSE LET app == e.total + s0.D - Len(s0.pre)
           stb == e.stable + s0.D - Len(s0.pre)
       IN IF s0.ph = "enc"
          \* (the consumable prefix ends at a slice boundary of the iovec: at most what precedes the pending header)
          THEN When(e.err = "" /\ (s1.ist.enc.bad \/ Len(s1.ist.enc.out) # app \/ (s0.preHole = 0 /\ Len(EncStable(s1.ist.enc)) < stb)),
                    {"encoder: appended byte count differs from / consumable bytes exceed the transcribed state machine"})
          ELSE When((e.err # "") # s1.ist.dec.err, {"decoder: rejects / accepts a piece unlike the transcribed state machine"})
          \cup When(e.err = "" /\ ~s1.ist.dec.err /\ (Len(s1.ist.dec.out) # app \/ (s0.preHole = 0 /\ stb # app)),
                    {"decoder: decoded byte count after a piece differs from the transcribed state machine"})

\* C09, "zero for the Decoder": DecFeed's output is exactly what the input fed so far determines (payload bytes at once, the
\* implicit FE FD of a short chunk as soon as the next header byte shows that the stream goes on); all of it must be consumable
DecoderLag(s, e) ==
  IF ~s.ist.on \/ s.ph # "dec" \/ e.panic # "" \/ e.err # "" \/ s.preHole > 0 THEN {}
  ELSE LET d == IFeed(s, e).dec IN
       When(~d.err /\ e.stable + s.D - Len(s.pre) < Len(d.out),
            V("C09", "decoder lag: bytes determined by the input fed so far are not consumable"))

Feed(s, e) ==
  LET bad ==
           When(e.panic # "", V(IF s.ph = "enc" THEN "C01" ELSE "C07", "panic while feeding: " \o e.panic)
                              \cup When(s.nd > 0, V("C09", "panic while feeding a codec whose output is being drained: the complete output never arrives")))
      \cup When(e.panic = "" /\ s.ph = "enc" /\ e.err # "", V("C01", "encoder feed failed: " \o e.err))
      \cup (IF e.panic = "" THEN ObsCheck(s, e, s.D)
                 \cup When(e.stable < s.stable, V("C09", "consumable bytes shrank without a drain"))
                 \cup DecoderLag(s, e)
            ELSE {})
  IN [st |-> [s EXCEPT !.pos = @ + e.n, !.vis = IF e.panic = "" THEN VisAfter(s, e, s.D) ELSE @,
                       !.total = e.total, !.stable = e.stable, !.ist = IFeed(s, e)],
      bad |-> bad]

Drain(s, e) ==
  LET k == Len(e.req)
      expectRet == IF e.mode = "slices" THEN HMin(e.n, e.nsl_before) ELSE HMin(e.n, e.stable_before)
      have == HMin(k, Len(s.vis) - s.D)
      bad ==
           When(e.panic # "", V("C09", "panic while draining: " \o e.panic)
                                \cup V(IF s.kind = "dec" THEN "C07" ELSE "C01", "panic while the output was drained incrementally: " \o e.panic))
      \cup (IF e.panic # "" THEN {} ELSE
             When(e.ret # expectRet, V("C09", "drain call reports a different amount than it was able to remove"))
        \cup When(e.mode # "slices" /\ e.ret # k, V("C09", "byte drain removed a different number of bytes than reported"))
        \cup When(e.mode = "read" /\ e.got # e.req, V("C09", "Read delivered bytes other than the consumable prefix"))
        \cup When(SubSeq(e.req, 1, have) # SubSeq(s.vis, s.D + 1, s.D + have),
                  V("C09", "drained bytes differ from what was visible before"))
        \cup When(e.total # e.total_before - k, V("C09", "total_size did not drop by the drained amount"))
        \cup When(e.stable # e.stable_before - k, V("C09", "consumable bytes did not drop by the drained amount"))
        \cup ObsCheck([s EXCEPT !.vis = IF s.D + k > Len(s.vis) THEN SubSeq(s.vis, 1, s.D) \o e.req ELSE s.vis],
                      e, s.D + k))
      vis1 == IF s.D + k > Len(s.vis) THEN SubSeq(s.vis, 1, s.D) \o e.req ELSE s.vis
      s1 == [s EXCEPT !.vis = vis1]
  IN [st |-> [s1 EXCEPT !.D = s.D + k, !.nd = @ + 1, !.vis = IF e.panic = "" THEN VisAfter(s1, e, s.D + k) ELSE @,
                        !.total = e.total, !.stable = e.stable],
      bad |-> bad]

\* The complete output of the phase: everything drained, then what finish returned.
FullOut(s, e) == SubSeq(s.vis, 1, s.D) \o e.rest
\* ... and the codec's own part of it: new_from_iovec appends after the iovec's earlier contents
Body(s, e) == LET o == FullOut(s, e) IN IF IsPrefixOf(s.pre, o) THEN SubSeq(o, Len(s.pre) + 1, Len(o)) ELSE o
PreKept(s, e) == When(~IsPrefixOf(s.pre, FullOut(s, e)),
                      V("C09", "the earlier contents of the OwningIovec given to new_from_iovec were lost or changed"))

EncFinishCheck(s, e) ==
  LET out == Body(s, e)
      ref == RefEncode(s.input, s.L1, s.L2, RADIX)
      prev == IF s.iid > 0 /\ outs.iid = s.iid THEN outs ELSE [iid |-> s.iid, input |-> s.input, out |-> out]
  IN   When(e.panic # "", V("C01", "panic in Encoder::finish: " \o e.panic))
  \cup (IF e.panic # "" THEN {} ELSE
          When(e.ok # 1 \/ e.pending = 1, V("C09", "finish left a placeholder pending / failed"))
     \cup When(e.fed # Len(s.input), V("C01", "harness did not feed the whole input"))
     \cup When(~IsPrefixOf(s.vis, FullOut(s, e)), V("C09", "bytes visible before finish are not a prefix of the final output"))
     \cup PreKept(s, e)
     \cup When(out # ref, V("C07", "encoder output is not the canonical HCOBS encoding of the input"))
     \cup When(out # ref /\ s.D > 0,
               V("C09", "what was drained plus what finish returned is not the complete output (bytes lost, duplicated or reordered)"))
     \cup When(HasStuff(out), V("C02", "encoder output contains the stuff sequence FE FD"))
     \cup When(Len(out) > EncBound(Len(s.input), s.L2), V("C02", "encoder output longer than len + 1 + 2*ceil(len/L2)"))
     \cup When(prev.input = s.input /\ prev.out # out,
               V("C02", "encoder output depends on segmentation / input method / drain schedule"))
     \cup (LET d == RefDecode(out, s.L1, s.L2, RADIX) IN
           When(~d.ok \/ d.out # s.input, V("C01", "the format's decoding of the encoder output is not the input"))))

DecFinishCheck(s, e) ==
  LET out == Body(s, e)
      d == RefDecode(s.input, s.L1, s.L2, RADIX)
  IN   When(e.panic # "", V("C07", "decoder panicked: " \o e.panic))
  \cup (IF e.panic # "" THEN {} ELSE
          When((e.ok = 1) # d.ok, V("C07", IF d.ok THEN "decoder rejects a well-formed encoding"
                                                     ELSE "decoder accepts a string outside the format"))
     \cup When(e.ok = 1 /\ d.ok /\ out # d.out, V("C07", "decoder output differs from the format's decoding"))
     \cup When(e.ok = 1 /\ d.ok /\ out # d.out /\ s.D > 0,
               V("C09", "what was drained plus what finish returned is not the complete output (bytes lost, duplicated or reordered)"))
     \cup When(e.ok = 1 /\ ~IsPrefixOf(s.vis, FullOut(s, e)), V("C09", "bytes visible before finish are not a prefix of the decoder's result"))
     \cup When(e.ok = 1, PreKept(s, e))
     \cup When(e.ok = 1 /\ e.fed # Len(s.input), V("C07", "harness did not feed the whole input"))
     \cup When(s.kind = "rt" /\ ~(e.ok = 1 /\ out = s.plain),
               V("C01", "decoding the encoder's output does not return the original bytes")))

\* Decoder::take_iovec mid-stream: what was drained plus what is in the returned iovec is what was decoded so far -
\* a prefix of the format's decoding of the whole input, when that exists, and it starts with everything seen before
TakeCheck(s, e) ==
  LET out == Body(s, e)
      d == RefDecode(s.input, s.L1, s.L2, RADIX)
  IN   When(e.panic # "" \/ e.ok # 1, V("C09", "take_iovec failed: " \o e.panic \o e.err))
  \cup (IF e.panic # "" \/ e.ok # 1 THEN {} ELSE
          When(~IsPrefixOf(s.vis, FullOut(s, e)), V("C09", "bytes visible before take_iovec are not a prefix of what it returned"))
     \cup PreKept(s, e)
     \cup When(e.pending = 1, V("C09", "the decoder's iovec has a pending backpatch (non-zero lag)"))
     \cup When(d.ok /\ ~IsPrefixOf(out, d.out), V("C09", "bytes decoded so far are not a prefix of the decoding of the whole input"))
     \cup When(d.ok /\ s.pos = Len(s.input) /\ Len(out) + 1 < Len(d.out),
               V("C09", "the whole input was fed but more than the one held-back byte is missing from the decoder's iovec")))

\* the arena moved on (flush_cache): nothing observable may change
Flush(s, e) ==
  [st |-> s,
   bad |-> IF e.panic # "" THEN V("C05", "panic after the arena cache was flushed: " \o e.panic)
           ELSE ObsCheck(s, e, s.D) \cup When(e.stable # s.stable \/ e.total # s.total, V("C09", "flushing the arena cache changed the output"))]

Step(s, e) ==
  CASE e.ev = "feed"  -> Feed(s, e)
    [] e.ev = "flush" -> Flush(s, e)
    [] e.ev = "drain" -> Drain(s, e)
    [] e.ev = "finish" ->
         [st |-> s, bad |-> IF s.ph = "enc" THEN EncFinishCheck(s, e) ELSE DecFinishCheck(s, e)]
    [] e.ev = "take_iovec" -> [st |-> s, bad |-> TakeCheck(s, e)]
    [] e.ev = "switch" ->
         [st |-> [s EXCEPT !.ph = "dec", !.input = e.dinput, !.pos = 0, !.vis = << >>, !.D = 0, !.nd = 0,
                           !.total = 0, !.stable = 0, !.ist = [on |-> Len(e.dinput) <= 1100, enc |-> EncNew(1), dec |-> DecNew]],
          bad |-> {}]
    [] e.ev = "end" ->
         [st |-> s,
          bad |-> When(e.live # s.live0 \/ e.chunks # s.chunks0,
                       V("C10", "arena chunks still live after every codec object was dropped"))]

Next ==
  /\ l <= Len(Rec)
  /\ l' = l + 1
  /\ LET e == Rec[l] IN
     IF e.ev = "reset_after_crash" THEN      \* the process died in this run (reported by the orchestrator)
        /\ failed' = TRUE /\ UNCHANGED <<st, viol, outs, drift>>
     ELSE IF e.ev = "reset" THEN
        /\ st' = NewRun(e) /\ failed' = FALSE /\ UNCHANGED <<viol, outs, drift>>
     ELSE IF failed /\ e.ev # "end" THEN UNCHANGED <<st, failed, viol, outs, drift>>
     ELSE LET r == Step(st, e) IN
          /\ st' = r.st
          /\ failed' = (failed \/ r.bad # {})
          /\ drift' = (IF Cardinality(drift) >= 20 \/ r.bad # {} THEN drift
                       ELSE drift \cup {[run |-> e.run, line |-> l, what |-> w] : w \in FeedDrift(st, r.st, e)})
          /\ viol' = CapViol(viol, {[run |-> e.run, line |-> l, prop |-> w[1], what |-> w[2]] : w \in r.bad})
          /\ outs' = IF e.ev = "finish" /\ st.ph = "enc" /\ e.panic = "" /\ st.iid > 0 /\ outs.iid # st.iid
                     THEN [iid |-> st.iid, input |-> st.input, out |-> Body(st, e)]
                     ELSE outs

Spec == Init /\ [][Next]_vars

Done == (l = Len(Rec) + 1) =>
          /\ PrintT(<<"TV-VIOL", ToJson(viol)>>)
          /\ PrintT(<<"TV-DRIFT", ToJson(drift)>>)
          /\ PrintT(<<"TV-DONE", Len(Rec)>>)
=============================================================================
