----------------------------- MODULE IovecPipe -----------------------------
(***************************************************************************)
(* A-spec for C03, C04, C20 (and the content side of C05, C10): an         *)
(* OwningIovec is a FIFO byte pipe with deferred holes.                    *)
(*                                                                         *)
(* Byte strings are *run lists*: sequences of runs <<kind, a, n>> (n > 0): *)
(*   kind 0: ramp      a, a+1, ... (mod 251), all values < 251             *)
(*   kind 1: constant  a (a >= 251), n times                               *)
(*   kind 2: hole      placeholder number a, n bytes, not backfilled yet   *)
(* in normal form (maximal runs), so that equal strings are equal values   *)
(* and megabytes cost a few list elements.  The spec never needs to know   *)
(* what the bytes mean: it concatenates what the events say was appended.  *)
(*                                                                         *)
(* Per object: buf (unconsumed content, with holes), pend (pending hole    *)
(* ids), lens (the stable slice lengths last observed: the pre-state that  *)
(* `consume(k slices)` refers to).                                         *)
(***************************************************************************)
EXTENDS Naturals, Integers, Sequences, FiniteSets

M == 251

PMin(a, b) == IF a <= b THEN a ELSE b
PLast(s) == s[Len(s)]
PButLast(s) == SubSeq(s, 1, Len(s) - 1)

RECURSIVE RLBytes(_)
RLBytes(rl) == IF rl = << >> THEN 0 ELSE rl[1][3] + RLBytes(Tail(rl))

RECURSIVE SumSeq(_)
SumSeq(s) == IF s = << >> THEN 0 ELSE s[1] + SumSeq(Tail(s))

Continues(r1, r2) ==
  \/ r1[1] = 0 /\ r2[1] = 0 /\ (r1[2] + r1[3]) % M = r2[2]
  \/ r1[1] = 1 /\ r2[1] = 1 /\ r1[2] = r2[2]

\* concatenation of two normal-form run lists, in normal form
RLCat(a, b) ==
  IF a = << >> THEN b
  ELSE IF b = << >> THEN a
  ELSE IF Continues(PLast(a), b[1])
    THEN PButLast(a) \o << <<PLast(a)[1], PLast(a)[2], PLast(a)[3] + b[1][3]>> >> \o Tail(b)
  ELSE a \o b

Run(d) == IF d[3] = 0 THEN << >> ELSE << <<d[1], d[2], d[3]>> >>       \* data descriptor -> run list

RunHead(r, k) == <<r[1], r[2], k>>
RunTail(r, k) == <<r[1], IF r[1] = 0 THEN (r[2] + k) % M ELSE r[2], r[3] - k>>

\* first n bytes / everything after the first n bytes (n <= RLBytes(rl))
RECURSIVE RLTake(_, _)
RLTake(rl, n) ==
  IF n = 0 \/ rl = << >> THEN << >>
  ELSE IF rl[1][3] <= n THEN <<rl[1]>> \o RLTake(Tail(rl), n - rl[1][3])
  ELSE <<RunHead(rl[1], n)>>

RECURSIVE RLDrop(_, _)
RLDrop(rl, n) ==
  IF n = 0 \/ rl = << >> THEN rl
  ELSE IF rl[1][3] <= n THEN RLDrop(Tail(rl), n - rl[1][3])
  ELSE <<RunTail(rl[1], n)>> \o Tail(rl)

\* number of bytes before the first hole (all bytes if there is none)
RECURSIVE BeforeHole(_)
BeforeHole(rl) == IF rl = << >> \/ rl[1][1] = 2 THEN 0 ELSE rl[1][3] + BeforeHole(Tail(rl))

HoleIds(rl) == {rl[i][2] : i \in {j \in 1..Len(rl) : rl[j][1] = 2}}

\* backfill hole `id` with the constant v
RECURSIVE RLFill(_, _, _)
RLFill(rl, id, v) ==
  IF rl = << >> THEN << >>
  ELSE IF rl[1][1] = 2 /\ rl[1][2] = id
    THEN RLCat(<< <<1, v, rl[1][3]>> >>, Tail(rl))
  ELSE RLCat(<<rl[1]>>, RLFill(Tail(rl), id, v))

RECURSIVE RLCatAll(_)
RLCatAll(ds) == IF ds = << >> THEN << >> ELSE RLCat(Run(ds[1]), RLCatAll(Tail(ds)))

(***************************************************************************)
(* The world: objs (function from live object ids to object states) and    *)
(* held (AnchoredSlices the environment holds: id -> run list).            *)
(***************************************************************************)
\* kin: the object is a clone, or has been cloned, since it was last emptied (C20: the two sides stay valid independently)
\* seen: how many leading bytes of buf were read through the consumer side (and matched) at the last observation
EmptyObj == [buf |-> << >>, pend |-> {}, lens |-> << >>, kin |-> FALSE, seen |-> 0]
EmptyWorld == [objs |-> << >>, held |-> << >>]

Restrict(f, S) == [x \in S |-> f[x]]
Put(f, k, v) == [x \in (DOMAIN f) \cup {k} |-> IF x = k THEN v ELSE f[x]]
Del(f, k) == Restrict(f, (DOMAIN f) \ {k})
Live(w, o) == o \in DOMAIN w.objs

Append2(w, o, rl) == [w EXCEPT !.objs = Put(@, o, [w.objs[o] EXCEPT !.buf = RLCat(@, rl)])]

\* Producer / structural operations.  e: the event record.  Returns the new world.
\* (events with skip = 1 were not executed and change nothing)
Produce(w, e) ==
  IF e.skip = 1 THEN w ELSE
  CASE e.ev = "new" -> [w EXCEPT !.objs = Put(@, e.o, EmptyObj)]
    [] e.ev = "from_slices" -> [w EXCEPT !.objs = Put(@, e.o, [EmptyObj EXCEPT !.buf = RLCatAll(e.data)])]
    [] e.ev = "push" -> Append2(w, e.o, Run(e.d))
    [] e.ev = "push_anchored" -> Append2(w, e.o, Run(e.d))
    [] e.ev = "extend" -> Append2(w, e.o, RLCatAll(e.data))
    [] e.ev = "hold" -> [w EXCEPT !.held = Put(@, e.h, Run(e.d))]
    [] e.ev = "held_op" ->
         LET c == w.held[e.h]
             n == IF "n" \in DOMAIN e THEN PMin(e.n, RLBytes(c)) ELSE 0
         IN (CASE e.what = "skip" -> [w EXCEPT !.held = Put(@, e.h, RLDrop(c, n))]
              [] e.what = "drop_suffix" -> [w EXCEPT !.held = Put(@, e.h, RLTake(c, RLBytes(c) - n))]
              [] e.what = "split" -> [w EXCEPT !.held = Put(Put(@, e.h, RLTake(c, n)), e.h2, RLDrop(c, n))]
              [] e.what = "clone" -> [w EXCEPT !.held = Put(@, e.h2, c)]
              [] e.what = "push" -> IF Live(w, e.o) THEN [Append2(w, e.o, c) EXCEPT !.held = Del(@, e.h)]
                                    ELSE [w EXCEPT !.held = Del(@, e.h)]
              [] e.what = "release" -> [w EXCEPT !.held = Del(@, e.h)])
    [] e.ev = "register" ->
         IF e.n = 0 THEN w
         ELSE [w EXCEPT !.objs = Put(@, e.o, [w.objs[e.o] EXCEPT !.buf = @ \o << <<2, e.id, e.n>> >>,
                                                                   !.pend = @ \cup {e.id}])]
    [] e.ev = "backfill" ->
         [w EXCEPT !.objs = Put(@, e.o, [w.objs[e.o] EXCEPT !.buf = RLFill(@, e.id, e.v), !.pend = @ \ {e.id}])]
    [] e.ev = "clear" -> [w EXCEPT !.objs = Put(@, e.o, EmptyObj)]
    [] e.ev = "take" -> [w EXCEPT !.objs = Put(Put(@, e.to, [w.objs[e.o] EXCEPT !.kin = TRUE]), e.o, EmptyObj)]
    [] e.ev = "clone" -> LET src == [w.objs[e.o] EXCEPT !.kin = TRUE] IN [w EXCEPT !.objs = Put(Put(@, e.o, src), e.to, src)]
    [] e.ev = "clone_from" -> LET src == [w.objs[e.o] EXCEPT !.kin = TRUE] IN [w EXCEPT !.objs = Put(Put(@, e.o, src), e.to, src)]
    [] e.ev = "drop" -> [w EXCEPT !.objs = Del(@, e.o)]
    [] OTHER -> w          \* flush, ensure, take_arena, swap_arena: the contents do not change

IsConsumer(e) == e.ev \in {"consume", "advance", "pop", "read"}

\* Consumer operations: how many bytes go, and what the call must return.
StableBytes(ob) == SumSeq(ob.lens)
RemovedBytes(ob, e) ==
  CASE e.ev = "consume" -> SumSeq(SubSeq(ob.lens, 1, PMin(e.n, Len(ob.lens))))
    [] e.ev = "pop" -> ob.lens[1]
    [] OTHER -> PMin(e.n, StableBytes(ob))
ExpectedRet(ob, e) ==
  CASE e.ev = "consume" -> PMin(e.n, Len(ob.lens))
    [] e.ev = "pop" -> 1
    [] OTHER -> PMin(e.n, StableBytes(ob))
Consume(w, e) ==
  IF e.skip = 1 THEN w
  ELSE LET k == RemovedBytes(w.objs[e.o], e) IN
       [w EXCEPT !.objs = Put(@, e.o, [w.objs[e.o] EXCEPT !.buf = RLDrop(@, k), !.seen = IF @ > k THEN @ - k ELSE 0])]
=============================================================================
