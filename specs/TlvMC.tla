------------------------------- MODULE TlvMC -------------------------------
(* Design model checking for C11 / C12.                                    *)
(* Side "view": for ALL byte strings of up to MaxWords words over WordSet  *)
(*   plus 0..3 trailing bytes, the transcribed accessors agree with the    *)
(*   layout definition on every accepted message: values tile the payload, *)
(*   indices >= N yield nothing (finding F3), no slice index goes out of   *)
(*   range.                                                                *)
(* Side "enc": for ALL lists of up to MaxPairs pairs (tags from Tags,      *)
(*   unsorted, repeated; values from Vals), Encode(p) is accepted, reads   *)
(*   back as the stably sorted pairs, and has length EncLen(p).            *)
EXTENDS RoughTlv, TLC
CONSTANTS Side, MaxWords, MaxPairs, Tags, BugF3

\* words as byte quadruples: 0,1,2,3,4,8,12, 65536, 2^29, 0xFFFFFFFF
WordSet == {<<0,0,0,0>>, <<1,0,0,0>>, <<2,0,0,0>>, <<3,0,0,0>>, <<4,0,0,0>>, <<8,0,0,0>>, <<12,0,0,0>>,
            <<0,0,1,0>>, <<0,0,0,32>>, <<255,255,255,255>>}
Vals == {<< >>, <<7>>, <<1,2,3>>, <<9,9,9,9,9>>}

VARIABLE c
RECURSIVE Flatten(_)
Flatten(ws) == IF ws = << >> THEN << >> ELSE ws[1] \o Flatten(Tail(ws))
Trail(k) == [i \in 1..k |-> 9]

Init ==
  IF Side = "view"
  THEN \E n \in 0..MaxWords : \E ws \in [1..n -> WordSet] : \E k \in 0..3 : c = Flatten(ws) \o Trail(k)
  ELSE \E n \in 0..MaxPairs : \E ts \in [1..n -> Tags] : \E vs \in [1..n -> Vals] :
          c = [i \in 1..n |-> <<ts[i], vs[i]>>]
Next == UNCHANGED c
Spec == Init /\ [][Next]_c

ViewOK == Side = "view" /\ Accepts(c) =>
   LET n == NumPairs(c) IN
   /\ Tiles(c)
   /\ \A i \in 0..(n - 1) : IGetValue(c, i, BugF3) = Value(c, i) /\ IGet(c, i, BugF3) = Pairs(c)[i + 1]
   /\ \A i \in n..(n + 2) : IGetValue(c, i, BugF3) = INone /\ IGet(c, i, BugF3) = INone
   /\ \A i \in 1..n : LET r == ValueRange(c, i - 1) IN r.a <= r.z /\ r.z <= Len(c) + 1

EncOK == Side = "enc" =>
   LET b == Encode(c)
       s == SortStable(c)
   IN /\ Accepts(b)
      /\ Len(b) = EncLen(c)
      /\ NumPairs(b) = Len(c)
      /\ Pairs(b) = [i \in 1..Len(s) |-> <<WordBytes(s[i][1]), s[i][2]>>]
      /\ TagsSorted(s)
=============================================================================
