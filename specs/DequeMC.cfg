SPECIFICATION Spec
CONSTANTS
  Vals = {1, 2}
  MaxLen = 6
  MaxAdv = 8
  BugF2 = FALSE
INVARIANTS TypeOK Refines Rep Waste
CHECK_DEADLOCK FALSE
