SPECIFICATION Spec
CONSTANTS
  Bound = 8388608
  Slack = 1048576
  Warm = 8388608
  MaxArenaChunk = 1048576
  L2 = 64008
INVARIANT Done
CHECK_DEADLOCK FALSE
