SPECIFICATION Spec
CONSTANTS
  RADIX = 253
  MaxArenaChunk = 1048576
INVARIANT Done
CHECK_DEADLOCK FALSE
