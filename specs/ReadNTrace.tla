----------------------------- MODULE ReadNTrace -----------------------------
(* Trace validation for C17: one event per executed (entry point, script,  *)
(* count, attempts, arena state); the recorded reader calls and the result *)
(* are compared with the declared result of ReadN.tla; for the codec entry *)
(* points the codec's subsequent output must be the format's encoding /    *)
(* decoding of exactly the bytes read (a failed or short read changed      *)
(* nothing else).                                                          *)
EXTENDS ReadN, HcobsFormat, TLC, Json, IOUtils

Rec == ndJsonDeserialize(IOEnv.TRACE)
VARIABLES l, viol
vars == <<l, viol>>
CapViol(v, new) == v \cup {x \in new : Cardinality({y \in v : y.prop = x.prop}) < 40}
Init == l = 1 /\ viol = {}
When(c, S) == IF c THEN S ELSE {}

Check(e) ==
  LET x == Expected(e.script, e.count, e.attempts)
      delivered == [i \in 1..(IF x.got > 70000 THEN 0 ELSE x.got) |-> i % 256]
      AB == e.ab          \* what the encoder entries encode before / after the read ("ab" / "yz", or "a FE" / "FD z")
      YZ == e.yz
  IN IF e.panic # "" THEN {"read_n panicked: " \o e.panic}
     ELSE
          When(Len(e.calls) > e.attempts, {"the reader was called more than max_attempts times"})
     \cup When([i \in 1..Len(e.calls) |-> e.calls[i][1]] # x.calls,
               {"the reader calls (number / requested sizes) differ from the contract"})
     \cup When((e.ok = 1) # (x.err = 0), {IF x.err = 0 THEN "read_n failed although bytes were delivered or end of file came first"
                                                        ELSE "read_n succeeded although nothing was delivered and the last response was an error"})
     \cup When(e.ok = 0 /\ x.err # 0 /\ e.err # x.err, {"read_n failed with another error than the last one"})
     \* (results longer than 70000 bytes are logged as length + "byte i is i mod 256 for every i")
     \cup When(e.ok = 1 /\ x.err = 0 /\ (IF x.got > 70000 THEN e.got_len # x.got \/ e.got_ramp # 1 ELSE e.got # delivered),
               {"read_n returned other bytes than the ones delivered, in order"})
     \cup When(e.entry = "enc_read_n" /\ e.out # RefEncode(AB \o YZ, 252, 64008, 253),
               {"Encoder::read_n changed the encoder's output"})
     \cup When(e.entry = "encode_read" /\ e.out # RefEncode(AB \o (IF x.err = 0 THEN delivered ELSE << >>) \o YZ, 252, 64008, 253),
               {"after encode_read the encoder's output is not the encoding of exactly the bytes read"})
     \cup When(e.entry \in {"dec_read_n", "decode_read"} /\
               LET d == RefDecode(e.fed, 252, 64008, 253) IN ~(d.ok /\ d.out = e.out),
               {"after the read the decoder's output is not the decoding of exactly the bytes fed"})
     \cup When(e.entry = "decode_read" /\ e.ok = 1 /\ x.err = 0 /\ SubSeq(e.fed, 4, 3 + x.got) # delivered,
               {"decode_read consumed other bytes than the ones delivered"})
     \cup When(e.leak = 1, {"arena chunks leaked by the read"})

Next == /\ l <= Len(Rec) /\ l' = l + 1
        /\ LET e == Rec[l] IN
           IF e.ev # "readn" THEN UNCHANGED viol
           ELSE viol' = CapViol(viol, {[run |-> e.run, line |-> l, prop |-> "C17", what |-> w] : w \in Check(e)})
Spec == Init /\ [][Next]_vars
Done == (l = Len(Rec) + 1) =>
          /\ PrintT(<<"TV-VIOL", ToJson(viol)>>) /\ PrintT(<<"TV-DRIFT", ToJson({})>>) /\ PrintT(<<"TV-DONE", Len(Rec)>>)
=============================================================================
