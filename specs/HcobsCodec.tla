----------------------------- MODULE HcobsCodec -----------------------------
(***************************************************************************)
(* I-spec for C01/C02/C07/C09: transcription of the encoder state machine  *)
(* (hcobs/src/encoder.rs: EncoderState::{consume_once, encode_*,           *)
(* terminate, encode_header, write_partial_stuff_sequence}) and of the     *)
(* decoder state machine (hcobs/src/decoder.rs: InitialState, BeforeChunk, *)
(* MidHeader, InChunk, terminate) as pure operators on state records.      *)
(* Every Rust assert! is transcribed: a failing one sets the `bad` flag.   *)
(***************************************************************************)
EXTENDS HcobsFormat

HOLE == -1       \* a header byte registered with register_patch and not backfilled yet

(***************************************************************************)
(* Encoder.  State:                                                        *)
(*   out  - everything appended to the iovec so far (holes for the pending *)
(*          header), hpos/hlen - the pending header (Backref),             *)
(*   maxc - max_chunk_size, cur - current_chunk_size, mid - maybe_mid_stuff*)
(***************************************************************************)
EncNew(L1) == [out |-> <<HOLE>>, hpos |-> 1, hlen |-> 1, maxc |-> L1, cur |-> 0,
               mid |-> FALSE, bad |-> FALSE]

\* encode_header + backfill_or_panic, followed by new_subsequent
EndChunk(st, L2, R) ==
  LET hdr == <<st.cur % R, st.cur \div R, 0>>
      ok  == st.cur < R * R /\ hdr[st.hlen + 1] = 0
      out1 == [i \in 1..Len(st.out) |->
                 IF i >= st.hpos /\ i < st.hpos + st.hlen THEN hdr[i - st.hpos + 1] ELSE st.out[i]]
  IN [out |-> out1 \o <<HOLE, HOLE>>, hpos |-> Len(out1) + 1, hlen |-> 2, maxc |-> L2, cur |-> 0,
      mid |-> FALSE, bad |-> st.bad \/ ~ok]

\* write / copy of a payload prefix
Put(st, bytes) ==
  IF bytes = << >> THEN st
  ELSE [st EXCEPT !.out = @ \o bytes, !.cur = @ + Len(bytes),
                  !.bad = @ \/ (st.cur + Len(bytes) > st.maxc)]

\* Position (1-based) of the first FE FD in `inp`, or 0: find_stuff_sequence
FindStuff(inp) == LET S == StuffPositions(inp) IN IF S = {} THEN 0 ELSE Min(S)

\* consume_once: returns [st, consumed]
ConsumeOnce(st0, input, L2, R) ==
  LET pre == st0.bad \/ input = << >> \/ ~(st0.cur + (IF st0.mid THEN 1 ELSE 0) < st0.maxc)
      st == [st0 EXCEPT !.bad = pre]
  IN IF st.mid /\ input[1] = FD
       THEN [st |-> EndChunk(st, L2, R), consumed |-> 1]
     ELSE
       LET a1 == st.bad \/ ~(st.cur < st.maxc)
           st1 == IF st.mid THEN [Put(st, <<FE>>) EXCEPT !.bad = @ \/ a1 \/ ~(st.cur + 1 < st.maxc)]
                  ELSE [st EXCEPT !.bad = a1]
           remaining == st1.maxc - st1.cur
           inp == SubSeq(input, 1, HMin(Len(input), remaining))
           k == FindStuff(inp)
       IN IF k # 0
            THEN [st |-> EndChunk(Put(st1, SubSeq(inp, 1, k - 1)), L2, R), consumed |-> k + 1]
          ELSE IF Len(inp) = remaining
            THEN [st |-> EndChunk(Put(st1, inp), L2, R), consumed |-> remaining]
          ELSE
            LET mid2 == inp[Len(inp)] = FE
                n == IF mid2 THEN Len(inp) - 1 ELSE Len(inp)
                st2 == [Put(st1, SubSeq(inp, 1, n)) EXCEPT !.mid = mid2]
            IN [st |-> [st2 EXCEPT !.bad = @ \/ ~(st2.cur + (IF mid2 THEN 1 ELSE 0) < st2.maxc)],
                consumed |-> Len(inp)]

\* encode_borrow / encode_copy: loop until the piece is consumed
RECURSIVE EncFeed(_, _, _, _)
EncFeed(st, input, L2, R) ==
  IF input = << >> \/ st.bad THEN st
  ELSE LET r == ConsumeOnce(st, input, L2, R)
           progress == r.consumed > 0 \/ (~r.st.mid /\ st.mid)
       IN IF r.consumed > Len(input) \/ ~progress THEN [r.st EXCEPT !.bad = TRUE]
          ELSE EncFeed(r.st, SubSeq(input, r.consumed + 1, Len(input)), L2, R)

\* terminate: flush the held-back FE, write the last header.  Returns the final bytes.
EncFinish(st, R) ==
  LET st1 == IF st.mid THEN Put(st, <<FE>>) ELSE st
      hdr == <<st1.cur % R, st1.cur \div R, 0>>
      ok  == st1.cur < st1.maxc /\ st1.cur < R * R /\ hdr[st1.hlen + 1] = 0
  IN [out |-> [i \in 1..Len(st1.out) |->
                 IF i >= st1.hpos /\ i < st1.hpos + st1.hlen THEN hdr[i - st1.hpos + 1] ELSE st1.out[i]],
      bad |-> st1.bad \/ ~ok]

\* What a consumer may see while the encoder is being fed: everything before the pending header.
EncStable(st) == SubSeq(st.out, 1, st.hpos - 1)

(***************************************************************************)
(* Decoder.  State: mode in {"init","before","mid","in"}, flag (insert /   *)
(* terminate with stuff), byte (first header byte), rem, out, err.         *)
(***************************************************************************)
DecNew == [mode |-> "init", flag |-> FALSE, byte |-> 0, rem |-> 0, out |-> << >>, err |-> FALSE]

AfterHeader(st, size, lim) ==
  IF size > 0 THEN [st EXCEPT !.mode = "in", !.rem = size, !.flag = size < lim]
  ELSE [st EXCEPT !.mode = "before", !.flag = size < lim]

\* one state-machine step on a non-empty input; returns [st, consumed]
DecStep(st, input, L1, L2, R) ==
  CASE st.mode = "init" ->
         IF input[1] > L1 THEN [st |-> [st EXCEPT !.err = TRUE], consumed |-> 0]
         ELSE [st |-> AfterHeader(st, input[1], L1), consumed |-> 1]
    [] st.mode = "before" ->
         LET st1 == IF st.flag THEN [st EXCEPT !.out = @ \o <<FE, FD>>] ELSE st IN
         IF input[1] >= R THEN [st |-> [st1 EXCEPT !.err = TRUE], consumed |-> 0]
         ELSE [st |-> [st1 EXCEPT !.mode = "mid", !.byte = input[1]], consumed |-> 1]
    [] st.mode = "mid" ->
         LET size == st.byte + input[1] * R IN
         IF input[1] >= R \/ size > L2 THEN [st |-> [st EXCEPT !.err = TRUE], consumed |-> 0]
         ELSE [st |-> AfterHeader(st, size, L2), consumed |-> 1]
    [] st.mode = "in" ->
         LET n == HMin(Len(input), st.rem)
             st1 == [st EXCEPT !.out = @ \o SubSeq(input, 1, n)]
         IN IF n < st.rem THEN [st |-> [st1 EXCEPT !.rem = @ - n], consumed |-> n]
            ELSE [st |-> [st1 EXCEPT !.mode = "before", !.rem = 0], consumed |-> n]
            \* (flag already holds terminate_with_stuff_sequence)

RECURSIVE DecFeed(_, _, _, _, _)
DecFeed(st, input, L1, L2, R) ==
  IF input = << >> \/ st.err THEN st
  ELSE LET r == DecStep(st, input, L1, L2, R) IN
       IF r.st.err THEN r.st ELSE DecFeed(r.st, SubSeq(input, r.consumed + 1, Len(input)), L1, L2, R)

\* terminate
DecFinishOk(st) == ~st.err /\ st.mode = "before" /\ st.flag
=============================================================================
