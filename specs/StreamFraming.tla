---------------------------- MODULE StreamFraming ----------------------------
(***************************************************************************)
(* A-spec for C08 (StreamChunker tiles the stream) and C06 (StreamReader   *)
(* returns exactly the valid delimited records), and the I-spec: a         *)
(* transcription of hcobs/src/stream_reader.rs (pump, next_record_bytes).  *)
(*                                                                         *)
(* Offsets are 0-based byte offsets into the stream, as in the Rust API;   *)
(* sequences are 1-based, so the stream byte at offset o is s[o + 1].      *)
(***************************************************************************)
EXTENDS HcobsCodec, TLC

(***************************************************************************)
(* A-spec, C08.  A chunk is [k |-> "D" | "S" | "E", off |-> end offset,    *)
(* data |-> bytes (for "D")].                                              *)
(***************************************************************************)
ChunkBytes(c) == IF c.k = "D" THEN c.data ELSE IF c.k = "S" THEN <<FE, FD>> ELSE << >>

\* Walks the chunks once: off is the end offset of the chunks before cs[i].
RECURSIVE TileWalk(_, _, _, _)
TileWalk(cs, s, i, off) ==
  IF i > Len(cs) THEN {}
  ELSE
    LET c == cs[i]
        bytes == ChunkBytes(c)
        end == off + Len(bytes)
    IN (IF c.k = "E"
          THEN (IF i # Len(cs) THEN {"Eof is not the last chunk"} ELSE {})
               \cup (IF off # Len(s) THEN {"Eof returned before the real end of the stream"} ELSE {})
        ELSE (IF end > Len(s) \/ SubSeq(s, off + 1, end) # bytes
                THEN {"chunks do not concatenate to the stream (a chunk differs from the stream at its position)"} ELSE {})
             \cup (IF c.off # end THEN {"a reported offset is not the absolute end position of its chunk"} ELSE {})
             \cup (IF c.k = "D" /\ c.data = << >> THEN {"empty Data chunk"} ELSE {})
             \cup (IF c.k = "D" /\ HasStuff(c.data) THEN {"Data chunk contains FE FD"} ELSE {})
             \cup (IF c.k = "D" /\ i < Len(cs) /\ cs[i + 1].k = "D" /\ c.data # << >> /\ cs[i + 1].data # << >>
                      /\ c.data[Len(c.data)] = FE /\ cs[i + 1].data[1] = FD
                   THEN {"FE FD straddles two consecutive Data chunks"} ELSE {}))
       \cup TileWalk(cs, s, i + 1, end)

\* The set of complaints about a chunk sequence for stream s (empty = it tiles a prefix of s;
\* with a final Eof chunk: it tiles s exactly).
TileComplaints(cs, s) == TileWalk(cs, s, 1, 0)

(***************************************************************************)
(* A-spec, C06.  Records(s, maxSize, limit): the maximal stuff-free        *)
(* non-empty segments [a, b) of s in order; reading stops at the first     *)
(* segment with a >= limit; a segment is returned iff it is a well-formed  *)
(* encoding whose decoding has at most maxSize bytes.  limit = -1: none;   *)
(* maxSize = -1: unbounded.                                                *)
(***************************************************************************)
\* segments as [a, b] (0-based start offset, end offset), from the sorted stuff positions P (1-based)
RECURSIVE SegsFrom(_, _, _, _)
SegsFrom(s, P, p, a) ==        \* a: 0-based start of the current candidate segment
  IF p > Len(P)
    THEN (IF a < Len(s) THEN <<[a |-> a, b |-> Len(s)]>> ELSE << >>)
  ELSE LET q == P[p] - 1 IN     \* 0-based offset of this FE FD
       (IF a < q THEN <<[a |-> a, b |-> q]>> ELSE << >>) \o SegsFrom(s, P, p + 1, q + 2)

Segments(s) == SegsFrom(s, SetToSortSeq(StuffPositions(s), <), 1, 0)

RECURSIVE RecsFrom(_, _, _, _, _, _, _, _)
RecsFrom(s, segs, i, maxSize, limit, L1, L2, R) ==
  IF i > Len(segs) THEN << >>
  ELSE LET g == segs[i] IN
       IF limit >= 0 /\ g.a >= limit THEN << >>
       ELSE LET d == RefDecode(SubSeq(s, g.a + 1, g.b), L1, L2, R) IN
            (IF d.ok /\ (maxSize < 0 \/ Len(d.out) <= maxSize)
               THEN <<[data |-> d.out, a |-> g.a, b |-> g.b]>> ELSE << >>)
            \o RecsFrom(s, segs, i + 1, maxSize, limit, L1, L2, R)

Records(s, maxSize, limit, L1, L2, R) == RecsFrom(s, Segments(s), 1, maxSize, limit, L1, L2, R)

(***************************************************************************)
(* The same for an arbitrary judge of the family                           *)
(*   J = [maxSize, limit, skipAt, stopAt]:                                 *)
(*   Stop        when the current range starts at or after `limit` or at   *)
(*               an offset in stopAt (the judge is also consulted, with an *)
(*               empty range, at every delimiter met while looking for the *)
(*               next record);                                             *)
(*   SkipRecord  when the decoded size exceeds maxSize or a non-empty      *)
(*               range starts at an offset in skipAt;   KeepGoing else.    *)
(* WalkJ follows the stream the way successive calls do: p is the offset   *)
(* where the search for the next record (re)starts.                        *)
(***************************************************************************)
StdJudge(maxSize, limit) == [maxSize |-> maxSize, limit |-> limit, skipAt |-> {}, stopAt |-> {}]
StopsAt(J, p) == (J.limit >= 0 /\ p >= J.limit) \/ p \in J.stopAt

RECURSIVE WalkJ(_, _, _, _, _, _)
WalkJ(s, p, J, L1, L2, R) ==
  IF p >= Len(s) THEN << >>
  ELSE IF p + 2 <= Len(s) /\ s[p + 1] = FE /\ s[p + 2] = FD
    THEN IF StopsAt(J, p + 2) THEN << >> ELSE WalkJ(s, p + 2, J, L1, L2, R)         \* a delimiter, judged with an empty range
  ELSE LET later == {q \in StuffPositions(s) : q - 1 >= p}
           b == IF later = {} THEN Len(s) ELSE Min(later) - 1                     \* end of this stuff-free segment
           d == RefDecode(SubSeq(s, p + 1, b), L1, L2, R)
           keep == d.ok /\ (J.maxSize < 0 \/ Len(d.out) <= J.maxSize) /\ p \notin J.skipAt
           rest == IF b >= Len(s) THEN << >> ELSE WalkJ(s, b + 2, J, L1, L2, R)    \* the delimiter closing the record is not judged
       IN IF StopsAt(J, p) THEN << >>
          ELSE (IF keep THEN <<[data |-> d.out, a |-> p, b |-> b]>> ELSE << >>) \o rest
RecordsJ(s, J, L1, L2, R) == WalkJ(s, 0, J, L1, L2, R)

(***************************************************************************)
(* I-spec: StreamChunker::pump.  Chunker state: [buf, off, pos] where pos  *)
(* is how much of the stream the reader has delivered.  Given read_n's     *)
(* contract (C17: it returns the carried prefix followed by the next bytes *)
(* of the stream until `count` bytes or end of stream, whatever the short  *)
(* read / EINTR schedule), pump is a function of (state, stream, block).   *)
(* BugF1 = TRUE transcribes the code before fix 3d1247d (block.max(1)).    *)
(***************************************************************************)
CInit == [buf |-> << >>, off |-> 0, pos |-> 0]

HMax(a, b) == IF a >= b THEN a ELSE b

RECURSIVE Pump(_, _, _, _)
Pump(c, s, block, BugF1) ==
  LET blk == HMax(block, IF BugF1 THEN 1 ELSE 2) IN
  IF Len(c.buf) < 2 THEN
     LET initial == Len(c.buf)
         want == blk - initial                       \* read_n(carry ++ reader, blk)
         take == HMin(HMax(want, 0), Len(s) - c.pos)
         nbuf == IF blk <= initial THEN SubSeq(c.buf, 1, blk)      \* (only when BugF1: blk = 1 = initial)
                 ELSE c.buf \o SubSeq(s, c.pos + 1, c.pos + take)
         npos == c.pos + (IF blk <= initial THEN 0 ELSE take)
     IN IF Len(nbuf) = initial
          THEN IF nbuf = << >>
                 THEN [chunk |-> [k |-> "E", off |-> 0, data |-> << >>], st |-> [c EXCEPT !.pos = npos]]
               ELSE [chunk |-> [k |-> "D", off |-> c.off + Len(nbuf), data |-> nbuf],
                     st |-> [buf |-> << >>, off |-> c.off + Len(nbuf), pos |-> npos]]
        ELSE Pump([c EXCEPT !.buf = nbuf, !.pos = npos], s, block, BugF1)
  ELSE IF c.buf[1] = FE /\ c.buf[2] = FD
    THEN [chunk |-> [k |-> "S", off |-> c.off + 2, data |-> << >>],
          st |-> [c EXCEPT !.buf = SubSeq(c.buf, 3, Len(c.buf)), !.off = c.off + 2]]
  ELSE LET k == FindStuff(c.buf)
           split == IF k # 0 THEN k - 1
                    ELSE IF c.buf[Len(c.buf)] = FE THEN Len(c.buf) - 1 ELSE Len(c.buf)
       IN [chunk |-> [k |-> "D", off |-> c.off + split, data |-> SubSeq(c.buf, 1, split)],
           st |-> [c EXCEPT !.buf = SubSeq(c.buf, split + 1, Len(c.buf)), !.off = c.off + split]]

\* all chunks up to and including Eof (bounded by fuel, so that a non-terminating variant is visible)
RECURSIVE PumpAll(_, _, _, _, _)
PumpAll(c, s, block, BugF1, fuel) ==
  IF fuel = 0 THEN << >>
  ELSE LET r == Pump(c, s, block, BugF1) IN
       IF r.chunk.k = "E" THEN <<r.chunk>>
       ELSE <<r.chunk>> \o PumpAll(r.st, s, block, BugF1, fuel - 1)

(***************************************************************************)
(* I-spec: StreamReader::next_record_bytes with a judge J of the family     *)
(* above (chunk_judge(maxSize, limit) = StdJudge(maxSize, limit)).  Reader state: the chunker state.          *)
(* Result: [rec |-> [data, a, b] or NoRec, st |-> chunker state].          *)
(***************************************************************************)
NoRec == [data |-> << >>, a |-> -1, b |-> -1]

JudgeJ(J, a, size, nonEmpty) ==
  IF StopsAt(J, a) THEN "stop"
  ELSE IF (J.maxSize >= 0 /\ size > J.maxSize) \/ (nonEmpty /\ a \in J.skipAt) THEN "skip" ELSE "keep"

\* inner loop: mode in {"sentinel", "decode", "skip"}; dec: decoder I-state; [a, b): range
RECURSIVE ReadLoop(_, _, _, _, _, _, _, _, _, _, _, _)
ReadLoop(c, s, block, mode, dec, a, b, J, L1, L2, R, fuel) ==
  IF fuel = 0 THEN [rec |-> NoRec, st |-> c, again |-> FALSE]
  ELSE
  LET r == Pump(c, s, block, FALSE)
      ch == r.chunk
  IN
  IF ch.k = "S" THEN
       IF mode = "sentinel"
         THEN (IF JudgeJ(J, ch.off, Len(dec.out), FALSE) = "stop"
                 THEN [rec |-> NoRec, st |-> r.st, again |-> FALSE]
               \* (a judge of the family cannot answer "skip" here: nothing is decoded yet and the range is empty)
               ELSE ReadLoop(r.st, s, block, mode, dec, ch.off, ch.off, J, L1, L2, R, fuel - 1))
       ELSE \* record complete
            IF mode = "decode" /\ DecFinishOk(dec)
              THEN [rec |-> [data |-> dec.out, a |-> a, b |-> b], st |-> r.st, again |-> FALSE]
            ELSE [rec |-> NoRec, st |-> r.st, again |-> TRUE]
  ELSE IF ch.k = "E" THEN
       IF a = b THEN [rec |-> NoRec, st |-> r.st, again |-> FALSE]
       ELSE IF mode = "decode" /\ DecFinishOk(dec)
              THEN [rec |-> [data |-> dec.out, a |-> a, b |-> b], st |-> r.st, again |-> FALSE]
            ELSE [rec |-> NoRec, st |-> r.st, again |-> TRUE]
  ELSE \* Data
       LET start == ch.off - Len(ch.data)
           a1 == IF mode = "sentinel" THEN start ELSE a
           mode1 == IF mode = "sentinel" THEN "decode" ELSE mode
           dec1 == IF mode1 = "decode" THEN DecFeed(dec, ch.data, L1, L2, R) ELSE dec
           mode2 == IF mode1 = "decode" /\ dec1.err THEN "skip" ELSE mode1
           j == JudgeJ(J, a1, Len(dec1.out), TRUE)
       IN IF j = "stop" THEN [rec |-> NoRec, st |-> r.st, again |-> FALSE]
          ELSE ReadLoop(r.st, s, block, IF j = "skip" THEN "skip" ELSE mode2, dec1, a1, ch.off,
                        J, L1, L2, R, fuel - 1)

\* 'retry loop
RECURSIVE NextRecord(_, _, _, _, _, _, _, _)
NextRecord(c, s, block, J, L1, L2, R, fuel) ==
  IF fuel = 0 THEN [rec |-> NoRec, st |-> c]
  ELSE LET r == ReadLoop(c, s, block, "sentinel", DecNew, 0, 0, J, L1, L2, R, 4 * Len(s) + 8) IN
       IF r.again THEN NextRecord(r.st, s, block, J, L1, L2, R, fuel - 1)
       ELSE [rec |-> r.rec, st |-> r.st]

\* all records returned by successive calls up to the first None
RECURSIVE AllRecords(_, _, _, _, _, _, _, _)
AllRecords(c, s, block, J, L1, L2, R, fuel) ==
  IF fuel = 0 THEN << >>
  ELSE LET r == NextRecord(c, s, block, J, L1, L2, R, Len(s) + 4) IN
       IF r.rec = NoRec THEN << >>
       ELSE <<r.rec>> \o AllRecords(r.st, s, block, J, L1, L2, R, fuel - 1)
=============================================================================
