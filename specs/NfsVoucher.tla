----------------------------- MODULE NfsVoucher -----------------------------
(***************************************************************************)
(* C19: the process-wide NFS base time only moves forward, and only on     *)
(* evidence from trusted devices.                                          *)
(*                                                                         *)
(* A-spec: `trusted` (devices), `base` (ms), files [dev, ctime], a clock;  *)
(* module calls AddTrustedPath / Observe / Scan / GetBaseTime /            *)
(* GetUnlocked, environment Touch / Tick.  The refresh decision of         *)
(* get_base_time / scan_base_time / maybe_observe_file_time is policy and  *)
(* left nondeterministic; try_update may lose a race (base may stay).      *)
(* I-spec: update_base_time(file, blocking, touch, extra_device), the scan *)
(* loop and add_trusted_path transcribed from nfs_voucher.rs; BugDev =     *)
(* TRUE drops the device check in blocking mode (a seeded change).         *)
(***************************************************************************)
EXTENDS Naturals, Integers, Sequences, FiniteSets, TLC

CONSTANTS Devs, Files, MaxClock, BugDev

VARIABLES trusted,   \* set of trusted devices
          paths,     \* Dev -> File or "none": the registered path per device (TRUSTED_PATHS)
          base,      \* the process-wide base time
          dev,       \* File -> Dev  (a path can be re-pointed to another device)
          ctime,     \* File -> Nat
          clock,
          last       \* what the last call returned / did (for the action properties)
vars == <<trusted, paths, base, dev, ctime, clock, last>>

NoFile == "none"
Max(a, b) == IF a >= b THEN a ELSE b

Init == /\ trusted = {} /\ paths = [d \in Devs |-> NoFile] /\ base = 0
        /\ dev \in [Files -> Devs] /\ ctime = [f \in Files |-> 0] /\ clock = 1
        /\ last = [op |-> "init", ret |-> -1, from |-> NoFile]

\* ---- I-spec: update_base_time --------------------------------------------
\* returns [ctime (after the optional touch), ret (-1: None), base, applied]
UpdateBaseTime(f, blocking, touch, extra, lose) ==
  LET ct == IF touch THEN clock ELSE ctime[f]
      ok == dev[f] \in trusted \/ extra = dev[f] \/ (BugDev /\ blocking)
      applied == ok /\ ct >= base /\ (blocking \/ ~lose)         \* try_update may lose the race for the lock
  IN [ct |-> ct, ret |-> IF ok THEN ct ELSE -1, base |-> IF applied THEN ct ELSE base]

Tick == clock < MaxClock /\ clock' = clock + 1 /\ UNCHANGED <<trusted, paths, base, dev, ctime, last>>
Touch(f) == /\ ctime' = [ctime EXCEPT ![f] = clock] /\ last' = [op |-> "touch", ret |-> -1, from |-> NoFile]
            /\ UNCHANGED <<trusted, paths, base, dev, clock>>
Repoint(f, d) == /\ dev' = [dev EXCEPT ![f] = d] /\ last' = [op |-> "repoint", ret |-> -1, from |-> NoFile]
                 /\ UNCHANGED <<trusted, paths, base, ctime, clock>>

AddTrustedPath(f, lose) ==
  LET u == UpdateBaseTime(f, FALSE, TRUE, dev[f], lose) IN
  /\ ctime' = [ctime EXCEPT ![f] = u.ct] /\ base' = u.base
  /\ trusted' = trusted \cup {dev[f]} /\ paths' = [paths EXCEPT ![dev[f]] = f]
  /\ last' = [op |-> "add", ret |-> u.ret, from |-> f]
  /\ UNCHANGED <<dev, clock>>

Observe(f, lose) ==
  LET u == UpdateBaseTime(f, FALSE, FALSE, NoFile, lose) IN
  /\ base' = u.base /\ last' = [op |-> "observe", ret |-> u.ret, from |-> f]
  /\ UNCHANGED <<trusted, paths, dev, ctime, clock>>

\* scan_for_base_time_impl: the registered paths in device order; the first trusted one wins
RECURSIVE ScanFrom(_, _, _)
ScanFrom(ds, ct, b) ==      \* ds: sequence of devices still to try; returns [ctime, base, ret, from]
  IF ds = << >> THEN [ctime |-> ct, base |-> b, ret |-> -1, from |-> NoFile]
  ELSE LET f == paths[ds[1]] IN
       IF f = NoFile THEN ScanFrom(Tail(ds), ct, b)
       ELSE LET ok == dev[f] \in trusted \/ BugDev
                ct2 == [ct EXCEPT ![f] = clock]            \* touch
            IN IF ok THEN [ctime |-> ct2, base |-> Max(b, clock), ret |-> clock, from |-> f]
               ELSE ScanFrom(Tail(ds), ct2, b)

DevSeq == CHOOSE s \in [1..Cardinality(Devs) -> Devs] : \A i, j \in 1..Cardinality(Devs) : i # j => s[i] # s[j]

Scan(op) ==      \* scan_base_time / get_base_time when the policy decides to refresh
  LET r == ScanFrom(DevSeq, ctime, base) IN
  /\ ctime' = r.ctime /\ base' = r.base /\ last' = [op |-> op, ret |-> r.ret, from |-> r.from]
  /\ UNCHANGED <<trusted, paths, dev, clock>>

GetNoRefresh == /\ last' = [op |-> "get", ret |-> base, from |-> NoFile]
                /\ UNCHANGED <<trusted, paths, base, dev, ctime, clock>>

Next == \/ Tick
        \/ \E f \in Files : Touch(f) \/ (\E d \in Devs : Repoint(f, d))
        \/ \E f \in Files, lose \in BOOLEAN : AddTrustedPath(f, lose) \/ Observe(f, lose)
        \/ Scan("scan") \/ Scan("get") \/ GetNoRefresh
Spec == Init /\ [][Next]_vars

(* ---- the property (A-level) ---- *)
\* the base time never decreases
Monotone == [][base' >= base]_vars
\* it changes only to the change-time of a file on a trusted device (or one being registered by that call)
OnlyTrustedEvidence ==
  [][base' # base => \E f \in Files : ctime'[f] = base' /\ dev'[f] \in trusted']_vars
\* observing a file on another device reports nothing and leaves the base time untouched
UntrustedIgnored ==
  [][(last'.op = "observe" /\ dev[last'.from] \notin trusted) => (last'.ret = -1 /\ base' = base)]_vars
\* whatever is returned is a base time the module could vouch for: the ctime of the file it came from, or the base
ReturnsVouched ==
  [][(last'.ret # -1) => (last'.ret = base' \/ (last'.from # NoFile /\ last'.ret = ctime'[last'.from]))]_vars
=============================================================================
