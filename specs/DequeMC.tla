------------------------------ MODULE DequeMC ------------------------------
(* Design model checking for C15: the I-spec (transcribed SlidingDeque)    *)
(* refines the A-spec (reference deque) in lockstep; check_rep and the     *)
(* waste bound are invariants.  Also the generator of the operation graph  *)
(* whose edges are replayed on the real code (bin/check, lib/graph_cover). *)
EXTENDS Deque, TLC

CONSTANTS Vals, MaxLen, MaxAdv, BugF2

VARIABLES s,    \* I-spec state [c, k]
          m,    \* A-spec state
          ok    \* the last operation returned the same value in both
vars == <<s, m, ok>>

Do(e) == LET ir == IApply(s, e, BugF2)
             ar == AApply(m, e)
         IN /\ s' = ir.st
            /\ m' = ar.st
            /\ ok' = (ir.ret = ar.ret)

Events == [ev : {"push_back"}, v : Vals]
     \cup [ev : {"pop_front", "pop_back", "clear", "slide"}]
     \cup [ev : {"advance"}, n : 0..MaxAdv]
     \cup [ev : {"write"}, i : 0..MaxLen, v : Vals]
     \cup [ev : {"write_front", "write_back"}, v : Vals]

Guard(e) == e.ev = "push_back" => Len(s.c) < MaxLen

Init == s = IInit /\ m = AInit /\ ok = TRUE

\* One action; the event record is its parameter, so that the labels of the
\* dumped state graph (-dump dot,actionlabels) are the operations to replay.
Step(e) == Guard(e) /\ Do(e)
Next == \E e \in Events : Step(e)

Spec == Init /\ [][Next]_vars

Refines  == ok /\ IView(s) = m             \* C15: every return value and the view agree
Rep      == CheckRep(s)                    \* C15: the debug assertions never fire
Waste    == WasteOK(s.k, Len(s.c))         \* C15: consumed space <= half the container
TypeOK   == s.k \in 0..Len(s.c) /\ Len(s.c) <= MaxLen
=============================================================================
