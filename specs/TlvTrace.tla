------------------------------ MODULE TlvTrace ------------------------------
(* Trace validation for C11 / C12: results recorded from the real          *)
(* MessageView (on untrusted bytes: TLC-enumerated header shapes,          *)
(* truncations, random strings) and the real MessageWrapper (all three     *)
(* constructors, borrowed / owned / nested values, OwningIovec / dyn sink  *)
(* / HCOBS Encoder sinks, size limits) are compared with the layout        *)
(* definition of RoughTlv.tla.                                             *)
EXTENDS RoughTlv, TLC, Json, IOUtils

Rec == ndJsonDeserialize(IOEnv.TRACE)
VARIABLES l, viol
vars == <<l, viol>>
CapViol(v, new) == v \cup {x \in new : Cardinality({y \in v : y.prop = x.prop}) < 40}
Init == l = 1 /\ viol = {}
When(c, S) == IF c THEN S ELSE {}
NoneV == <<-1>>

\* complaints about the accessor report `r` of a view over bytes b (r.ok = 1)
ViewComplaints(b, r) ==
  LET n == NumPairs(b)
      ps == Pairs(b)
  IN   When(r.n # n \/ r.empty # (IF n = 0 THEN 1 ELSE 0), {"len / is_empty disagree with the pair count"})
  \cup When(r.iter # ps, {"iteration differs from the layout (tags / value ranges)"})
  \cup When(r.tags # [i \in 1..n |-> ps[i][1]], {"tags() differs from the tag array"})
  \cup When(n >= 1 /\ ConcatValues(r.iter, 1) # SubSeq(b, 8 * n + 1, Len(b)), {"values do not tile the bytes after the header"})
  \cup When(\E i \in 1..n : r.gets[i] # ps[i] \/ r.getvs[i] # ps[i][2], {"indexed access disagrees with iteration"})
  \cup When(\E i \in (n + 1)..Len(r.gets) : r.gets[i] # NoneV \/ r.getvs[i] # NoneV,
            {"an index >= N yields something (get / get_value)"})
  \cup When(\E i \in 1..Len(r.finds) :
              LET f == r.finds[i]
                  L == Lookups(b, f.tag)
              IN \/ (L = {}) # (f.v = NoneV)
                 \/ (L # {} /\ f.v \notin L)
                 \/ (f.idx = -1) # (L = {})
                 \/ (f.idx >= 0 /\ (f.idx >= n \/ ps[f.idx + 1][1] # f.tag)),
            {"tag lookup returns a value not stored under exactly that tag (or misses a present tag)"})
  \cup When(r.match # 1 \/ r.reenc_ok # 1, {"tags_match_exactly / re-encoding of the view disagree with the message"})

RECURSIVE Resolve(_)
Resolve(ps) ==     \* trace pairs -> <<tag, value bytes>> (nested messages are encoded by the definition)
  [i \in 1..Len(ps) |-> <<ps[i][1], IF ps[i][2][1] = "m" THEN Encode(Resolve(ps[i][2][2])) ELSE ps[i][2][2]>>]

Check(e) ==
  CASE e.ev = "view" ->
         IF e.panic # "" THEN {<<"C12", "MessageView panicked on untrusted bytes: " \o e.panic>>}
         ELSE When((e.ok = 1) # Accepts(e.bytes),
                   {<<"C12", IF Accepts(e.bytes) THEN "MessageView::new rejects a well-formed message"
                                                 ELSE "MessageView::new accepts bytes outside the format">>})
              \cup (IF e.ok = 1 /\ Accepts(e.bytes) THEN {<<"C12", w>> : w \in ViewComplaints(e.bytes, e)} ELSE {})
    [] e.ev = "enc" ->
         LET ps == Resolve(e.pairs)
             mustOk == e.ctor # "sorted" \/ TagsSorted(ps)
             ref == Encode(ps)
         IN IF e.panic # "" THEN {<<"C11", "MessageWrapper panicked: " \o e.panic>>}
            ELSE When((e.ok = 1) # mustOk, {<<"C11", "constructor verdict differs (only new_from_sorted rejects, exactly the lists whose tags decrease)">>})
            \cup (IF e.ok = 1 /\ mustOk THEN
                    When(e.bytes # ref, {<<"C11", "emitted bytes are not the Roughtime layout (count, offsets, stably sorted tags, values)">>})
               \cup When(e.len # Len(e.bytes) \/ e.len # EncLen(ps), {<<"C11", "rough_tlv_len differs from the emitted length">>})
               \cup When(e.view.panic # "" \/ e.view.ok # 1, {<<"C11", "MessageView does not accept the emitted bytes">>})
               \cup (IF e.view.panic = "" /\ e.view.ok = 1 /\ e.bytes = ref
                     THEN {<<"C11", "reading back: " \o w>> : w \in ViewComplaints(e.bytes, e.view)}
                          \cup When(e.view.iter # [i \in 1..Len(ps) |-> <<WordBytes(SortStable(ps)[i][1]), SortStable(ps)[i][2]>>],
                                    {<<"C11", "the view does not return the same pairs in sorted, insertion-stable order">>})
                     ELSE {})
                  ELSE {})
    [] e.ev = "limits" ->
         LET ls == [i \in 1..Len(e.lens) |-> [hi |-> e.lens[i][1], lo |-> e.lens[i][2]]]
             sortedOk == e.ctor # "sorted" \/ \A i \in 1..(Len(e.tags) - 1) : e.tags[i] <= e.tags[i + 1]
             mustOk == sortedOk /\ ~TooLarge(ls)
             hdr == [hi |-> 0, lo |-> 4 + (IF Len(ls) = 0 THEN 0 ELSE 4 * (Len(ls) - 1)) + 4 * Len(ls)]
             tot == LAdd(hdr, LSum(ls, 1))
         IN IF e.panic # "" THEN {<<"C11", "constructor panicked: " \o e.panic>>}
            ELSE When((e.ok = 1) # mustOk, {<<"C11", "size limit verdict differs (reject exactly when a value or the total exceeds i32::MAX)">>})
            \cup When(e.ok = 1 /\ mustOk /\ e.len # <<tot.hi, tot.lo>>, {<<"C11", "rough_tlv_len differs from header + values">>})
    [] OTHER -> {}

Next == /\ l <= Len(Rec) /\ l' = l + 1
        /\ LET e == Rec[l] IN
           viol' = CapViol(viol, {[run |-> e.run, line |-> l, prop |-> x[1], what |-> x[2]] : x \in Check(e)})
Spec == Init /\ [][Next]_vars
Done == (l = Len(Rec) + 1) =>
          /\ PrintT(<<"TV-VIOL", ToJson(viol)>>) /\ PrintT(<<"TV-DRIFT", ToJson({})>>) /\ PrintT(<<"TV-DONE", Len(Rec)>>)
=============================================================================
