------------------------------- MODULE Deque -------------------------------
(***************************************************************************)
(* A-spec for C15: the reference double-ended queue, and (below) the       *)
(* I-spec: a transcription of sliding_deque/src/sliding_deque.rs.          *)
(*                                                                         *)
(* Both are written as *pure operators* `state, event -> [st, ret]` so     *)
(* that the same definitions are used by                                   *)
(*   - DequeMC.tla    (design model checking: I-spec refines A-spec),      *)
(*   - DequeTrace.tla (validation of traces recorded from the real code).  *)
(*                                                                         *)
(* Events are records with a field `ev` (operation name) and the           *)
(* operation's arguments: v (value), n (count), i (0-based index).         *)
(* An absent Option is encoded as -1 (values are naturals).                *)
(***************************************************************************)
EXTENDS Naturals, Integers, Sequences

NoneV == -1

Min2(a, b) == IF a <= b THEN a ELSE b

DropN(s, n) == SubSeq(s, n + 1, Len(s))           \* s without its first n elements
TakeN(s, n) == SubSeq(s, 1, n)
Last(s)     == s[Len(s)]
ButLast(s)  == SubSeq(s, 1, Len(s) - 1)
SetAt(s, i, v) == [s EXCEPT ![i] = v]               \* 1-based

(***************************************************************************)
(* A-spec.  State: the queue contents as a sequence `m`.                   *)
(***************************************************************************)
AInit == << >>

AApply(m, e) ==
  CASE e.ev = "push_back" -> [st |-> Append(m, e.v), ret |-> NoneV]
    [] e.ev = "pop_front" -> IF m = << >> THEN [st |-> m, ret |-> NoneV]
                                           ELSE [st |-> Tail(m), ret |-> Head(m)]
    [] e.ev = "pop_back"  -> IF m = << >> THEN [st |-> m, ret |-> NoneV]
                                           ELSE [st |-> ButLast(m), ret |-> Last(m)]
    [] e.ev = "advance"   -> LET k == Min2(e.n, Len(m)) IN [st |-> DropN(m, k), ret |-> k]
    [] e.ev = "clear"     -> [st |-> << >>, ret |-> NoneV]
    [] e.ev = "slide"     -> [st |-> m, ret |-> NoneV]
    \* in-place writes through DerefMut (index i, 0-based), front_mut, back_mut.
    \* ret = 1 if the write happened (the view had that element), else 0.
    [] e.ev = "write"     -> IF e.i < Len(m) THEN [st |-> SetAt(m, e.i + 1, e.v), ret |-> 1]
                                              ELSE [st |-> m, ret |-> 0]
    [] e.ev = "write_front" -> IF m # << >> THEN [st |-> SetAt(m, 1, e.v), ret |-> 1]
                                             ELSE [st |-> m, ret |-> 0]
    [] e.ev = "write_back"  -> IF m # << >> THEN [st |-> SetAt(m, Len(m), e.v), ret |-> 1]
                                             ELSE [st |-> m, ret |-> 0]

\* What every observer must see in state m.
AFront(m) == IF m = << >> THEN NoneV ELSE Head(m)
ABack(m)  == IF m = << >> THEN NoneV ELSE Last(m)

\* The waste bound of C15 on the two numbers exposed by hook H1.
WasteOK(consumed, clen) == 2 * consumed <= clen

(***************************************************************************)
(* I-spec.  State: [c |-> backing container, k |-> consumed_prefix].       *)
(* BugF2 = TRUE transcribes pop_back as it was before the fix (5e2a491).   *)
(***************************************************************************)
IInit == [c |-> << >>, k |-> 0]

IView(s)    == DropN(s.c, s.k)
IIsEmpty(s) == Len(s.c) - s.k = 0        \* Deref slice is empty (k <= Len(c) always)

\* check_rep: both debug assertions.
CheckRep(s) == /\ (~IIsEmpty(s)) \/ (s.k = 0)
               /\ s.k <= Len(s.c) \div 2

ISlide(s) == [c |-> DropN(s.c, s.k), k |-> 0]       \* copy_within + truncate + reset
IClear(s) == [c |-> << >>, k |-> 0]
IMaybeSlide(s) == IF (s.k > Len(s.c) \div 2) \/ IIsEmpty(s) THEN ISlide(s) ELSE s

IApply(s, e, BugF2) ==
  CASE e.ev = "push_back" -> [st |-> [s EXCEPT !.c = Append(s.c, e.v)], ret |-> NoneV]
    [] e.ev = "pop_front" ->
         IF IIsEmpty(s) THEN [st |-> s, ret |-> NoneV]
         ELSE [st |-> IMaybeSlide([s EXCEPT !.k = s.k + 1]), ret |-> s.c[s.k + 1]]
    [] e.ev = "pop_back" ->
         IF IIsEmpty(s) THEN [st |-> s, ret |-> NoneV]
         ELSE LET s1 == [s EXCEPT !.c = ButLast(s.c)]
                  s2 == IF BugF2 THEN (IF IIsEmpty(s1) THEN IClear(s1) ELSE s1)
                                 ELSE IMaybeSlide(s1)
              IN [st |-> s2, ret |-> Last(s.c)]
    [] e.ev = "advance" ->
         LET avail == Len(s.c) - s.k           \* saturating_sub never saturates: k <= Len(c)
             n == Min2(avail, e.n)
         IN [st |-> IMaybeSlide([s EXCEPT !.k = s.k + n]), ret |-> n]
    [] e.ev = "clear" -> [st |-> IClear(s), ret |-> NoneV]
    [] e.ev = "slide" -> [st |-> ISlide(s), ret |-> NoneV]
    [] e.ev = "write" ->
         IF e.i < Len(s.c) - s.k THEN [st |-> [s EXCEPT !.c = SetAt(s.c, s.k + e.i + 1, e.v)], ret |-> 1]
                                 ELSE [st |-> s, ret |-> 0]
    [] e.ev = "write_front" ->
         IF ~IIsEmpty(s) THEN [st |-> [s EXCEPT !.c = SetAt(s.c, s.k + 1, e.v)], ret |-> 1]
                         ELSE [st |-> s, ret |-> 0]
    [] e.ev = "write_back" ->
         IF ~IIsEmpty(s) THEN [st |-> [s EXCEPT !.c = SetAt(s.c, Len(s.c), e.v)], ret |-> 1]
                         ELSE [st |-> s, ret |-> 0]
=============================================================================
