"""Which engine parts decide which property."""
from .engines import deque, codec, stream, pipe, readn, tlv, vt, atomic, nfs

# part name -> (run(res, work, tier, seed), replay(rep, work))
PARTS = {
    "deque.c15": (deque.run_c15, deque.replay),
    "deque.c16": (deque.run_c16, deque.replay),
    "codec.small": (codec.run_small, codec.replay),
    "codec.prod": (codec.run_prod, codec.replay),
    "stream.main": (stream.run_stream, stream.replay),
    "codec.footprint": (codec.run_footprint, codec.replay_footprint),
    "pipe.random": (pipe.run_random, pipe.replay),
    "pipe.design": (pipe.run_design, pipe.replay),
    "readn.main": (readn.run_readn, readn.replay),
    "tlv.main": (tlv.run_tlv, tlv.replay),
    "vt.main": (vt.run_vt, vt.replay),
    "atomic.main": (atomic.run_atomic, atomic.replay),
    "nfs.main": (nfs.run_nfs, nfs.replay),
}

# property -> parts whose violations (filtered by property id) decide it
PROPERTY_PARTS = {
    "C15": ["deque.c15", "deque.c16"],
    "C16": ["deque.c16"],
    "C01": ["codec.small", "codec.prod"],
    "C02": ["codec.small", "codec.prod", "codec.footprint"],
    "C07": ["codec.small", "codec.prod"],
    "C09": ["codec.small", "codec.prod", "codec.footprint"],
    "C08": ["stream.main"],
    "C17": ["readn.main"],
    "C14": ["vt.main"],
    "C19": ["nfs.main"],
    "C13": ["atomic.main"],
    "C18": ["atomic.main", "nfs.main"],
    "C11": ["tlv.main"],
    "C12": ["tlv.main"],
    "C03": ["pipe.design", "pipe.random"],
    "C04": ["pipe.design", "pipe.random"],
    "C05": ["pipe.design", "pipe.random", "codec.small", "codec.prod", "stream.main"],
    "C20": ["pipe.design", "pipe.random"],
    "C10": ["pipe.design", "pipe.random", "codec.footprint", "codec.small", "codec.prod", "stream.main"],
    "C06": ["stream.main"],
}
