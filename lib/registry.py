"""Which engine parts decide which property."""
from .engines import deque

# part name -> (run(res, work, tier, seed), replay(rep, work))
PARTS = {
    "deque.c15": (deque.run_c15, deque.replay),
    "deque.c16": (deque.run_c16, deque.replay),
}

# property -> parts whose violations (filtered by property id) decide it
PROPERTY_PARTS = {
    "C15": ["deque.c15", "deque.c16"],
    "C16": ["deque.c16"],
}
