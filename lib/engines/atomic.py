"""Engine `atomic`: AtomicBaseTime (C13, C18) through hook H4.

(a) extraction : a sequential probe of snapshot / update / try_update on the real code records the
                 (location, kind, ordering) skeleton; the design check runs on THOSE orderings;
(b) design MC  : AtomicBaseTime.tla on a release/acquire memory model, several thread programs, RA and SC,
                 plus reader termination under reader-only fairness;
(c) edge cover : every edge of the quick graph is replayed on the real code (thread, reads-from index);
(d) exploration: seeded random schedules x reads-from choices executed on the real code, incl. 'park the
                 writers anywhere (lock held or not) and run a reader / try_update alone';
(e) every execution of (c) and (d) is validated by TLC (AtomicTrace.tla): legality under the memory model
                 and the A-level monitors of C13 / C18.
"""
import json
import os
import random
import re

from .. import core, tlc, graph_cover

EXPECTED_SKELETON = {
    "snapshot": [["load", "seq"], ["load", "v0"], ["load", "b0"], ["load", "seq"]],
    "update": [["lock", "L"], ["load", "seq"], ["load", "v0"], ["load", "b0"], ["store", "b1"], ["store", "v1"],
               ["store", "seq"], ["unlock", "L"]],
    "try_update": [["try_lock", "L"], ["load", "seq"], ["load", "v0"], ["load", "b0"], ["store", "b1"], ["store", "v1"],
                   ["store", "seq"], ["unlock", "L"]],
}
PROGRAMS = {
    "Prog_2W1R": [[["upd", 2], ["upd", 1]], [["upd", 3], ["try", 1]], [["snap"]]],
    "Prog_1W1R": [[["upd", 1], ["upd", 2], ["upd", 3]], [["snap"], ["snap"]]],
    "Prog_Mixed": [[["upd", 2], ["snap"]], [["try", 1], ["upd", 3]]],
    "Prog_2W2R": [[["upd", 1], ["upd", 3]], [["upd", 2]], [["snap"]], [["snap"]]],
    "Prog_2W2R_big": [[["upd", 1], ["upd", 3]], [["upd", 2], ["try", 4]], [["snap"], ["snap"]], [["snap"]]],
}


def _probe(work):
    """(a) run one trivial execution to get the skeleton the harness extracted from the real code."""
    trace = core.drive("atomic", [{"run": 1, "cfg": {"programs": [[["snap"]]], "sc": True, "seed": 1}, "ops": []}], work, "probe")
    first = json.loads(open(trace).readline())
    os.remove(trace)
    return first["skeleton"]


def _orderings(skel):
    """Map the extracted skeleton to the ordering constants of the spec; None if the shape differs (DRIFT)."""
    for m, exp in EXPECTED_SKELETON.items():
        got = [[o[0], o[1]] for o in skel.get(m, [])]
        if got != exp:
            return None
    n = {"rlx": "rlx", "acq": "acq", "rel": "rel", "sc": "acq", "acqrel": "acq"}
    s, u = skel["snapshot"], skel["update"]
    if s[1][2] != s[2][2] or u[2][2] != u[3][2] or u[4][2] != u[5][2]:
        return None
    st = {"rlx": "rlx", "rel": "rel", "sc": "rel", "acqrel": "rel", "acq": "rlx"}
    return {"OrdSeq1": n[s[0][2]], "OrdSlotLoad": n[s[1][2]], "OrdSeq2": n[s[3][2]],
            "OrdSlotStore": st[u[4][2]], "OrdSeqStore": st[u[6][2]], "OrdWSeq": n[u[1][2]], "OrdWSlot": n[u[2][2]]}


def _mc(res, work, prog, sc, ords, dump=False, liveness=False):
    consts = "  Programs <- %s\n  SC = %s\n" % (prog, "TRUE" if sc else "FALSE")
    consts += "".join('  %s = "%s"\n' % (k, v) for k, v in sorted(ords.items()))
    name = "AtomicMC_%s_%s%s.cfg" % (prog, "sc" if sc else "ra", "_live" if liveness else "")
    cfg = os.path.join(work, name)
    with open(cfg, "w") as f:
        if liveness:
            f.write("SPECIFICATION FairSpec\nCONSTANTS\n%sPROPERTY ReaderTerminates\nCHECK_DEADLOCK FALSE\n" % consts)
        else:
            f.write("SPECIFICATION Spec\nCONSTANTS\n%sINVARIANTS NoTorn NoTornPending MonotonicPerThread OlderIgnored RecentSC "
                    "RecentOwn SnapshotBound TryNoWait\nCHECK_DEADLOCK FALSE\n" % consts)
    dot = os.path.join(work, "atomic_graph") if dump else None
    r = tlc.run_tlc("AtomicMC", cfg, os.path.join(work, "mc"), workers=8, timeout=3000, dump_dot=dot)
    return r, dot


def _cex_script(r):
    """Turn a TLC counterexample into a script [[t, label, rf], ...] for the harness."""
    steps = []
    for m in re.finditer(r"<Step\(\[t \|-> (\d+), a \|-> \"(\w+)\", rf \|-> (\d+)\]\)", r["out"]):
        steps.append([int(m.group(1)), m.group(2), int(m.group(3))])
    return steps


def run_atomic(res, work, tier, seed):
    os.makedirs(work, exist_ok=True)
    rng = random.Random(seed * 7919 + 13)
    skel = _probe(work)
    ords = _orderings(skel)
    drift = ords is None
    if drift:
        res.data["drift"].append({"what": "the atomic-operation skeleton of snapshot/update/try_update differs from the "
                                          "transcription; design MC runs on the transcription's orderings, the edge-cover claim is void",
                                  "skeleton": skel})
        ords = {"OrdSeq1": "acq", "OrdSlotLoad": "acq", "OrdSeq2": "acq", "OrdSlotStore": "rel", "OrdSeqStore": "rel",
                "OrdWSeq": "rlx", "OrdWSlot": "acq"}
    res.data["notes"].append("orderings extracted from the real code through hook H4: %s" % json.dumps(ords, sort_keys=True))
    runs = []
    rid = 0
    # (b) design MC on the extracted orderings; a counterexample is replayed on the real code
    progs = ["Prog_2W1R", "Prog_1W1R", "Prog_Mixed"] + (["Prog_2W2R"] if tier != "quick" else [])
    graph_paths = []
    cover_prog = "Prog_1W1R"
    for prog in progs:
        for sc in (False, True):
            if prog == "Prog_2W2R" and sc:
                continue
            dump = (prog == ("Prog_1W1R" if tier == "quick" else "Prog_2W1R") and not sc and not drift)
            r, dot = _mc(res, work, prog, sc, ords, dump=dump)
            if r["violated"]:
                script = _cex_script(r)
                rid += 1
                runs.append({"run": rid, "cfg": {"programs": PROGRAMS[prog], "sc": sc, "seed": 1, "steps": script,
                                                 "origin": "TLC counterexample for %s (%s)" % (r["violated"], prog)}, "ops": []})
                res.data["notes"].append("design MC %s %s: %s violated with the extracted orderings; counterexample (%d steps) "
                                         "replayed on the real code" % (prog, "SC" if sc else "RA", r["violated"], len(script)))
                continue
            res.add_mc("AtomicMC %s %s: NoTorn, Monotonic, OlderIgnored, Recent, SnapshotBound" % (prog, "SC" if sc else "RA"),
                       r, json.dumps(ords, sort_keys=True))
            if dump:
                g = graph_cover.parse_dot(dot + ".dot")
                os.remove(dot + ".dot")
                paths = graph_cover.edge_cover(g, max_run=120)
                cover_prog = prog
                res.data["edge_cover"].append({"graph": "AtomicMC %s RA" % prog, "edges": len(g.edges), "paths": len(paths),
                                               "ops": sum(len(p) for p in paths)})
                for p in paths:
                    evs = [core.label_event(g.edges[i][2]) for i in p]
                    graph_paths.append([[e["t"], e["a"], e["rf"]] for e in evs])
    if not drift:
        r, _ = _mc(res, work, "Prog_2W1R", False, ords, liveness=True)
        if r["violated"]:
            raise core.ToolError("ReaderTerminates violated in the design model:\n" + r["out"][-2000:])
        res.add_mc("AtomicMC Prog_2W1R RA: reader terminates under reader-only fairness (writers may stall forever)", r, "FairSpec")
    # sharpness: weakening any of the five orderings must break NoTorn in the model
    weak = 0
    for k, v in (("OrdSeq1", "rlx"), ("OrdSlotLoad", "rlx"), ("OrdSeq2", "rlx"), ("OrdSlotStore", "rlx"), ("OrdSeqStore", "rlx")):
        if tier == "quick" and k not in ("OrdSeq2", "OrdSlotStore"):
            continue
        o2 = dict(ords)
        if o2[k] == v:
            continue
        o2[k] = v
        r, _ = _mc(res, work, "Prog_2W1R", False, o2)
        if r["violated"]:
            weak += 1
        else:
            raise core.ToolError("weakening %s does not break the model (vacuity guard)" % k)
    res.data["notes"].append("vacuity guard: weakening %d single orderings to relaxed breaks NoTorn in the model" % weak)
    # (c) edge cover of the quick graph, scripted
    for p in graph_paths:
        rid += 1
        runs.append({"run": rid, "cfg": {"programs": PROGRAMS[cover_prog], "sc": False, "seed": rid, "steps": p}, "ops": []})
    n_script = rid
    # (d) independent exploration: random schedules x reads-from, RA and SC, with parking
    menu = list(PROGRAMS.values()) + [
        [[["upd", 5], ["upd", 6], ["upd", 7], ["upd", 8]], [["snap"], ["snap"], ["snap"]]],
        [[["upd", 4]], [["upd", 2]], [["upd", 3]], [["snap"], ["snap"]]],
        [[["bad", 9]], [["try", 3], ["try", 4]], [["snap"]]],
        [[["upd", 2], ["bad", 6]], [["try", 5], ["upd", 7]], [["snap"], ["snap"]]],
        [[["try", 1], ["try", 2], ["try", 3]], [["try", 2], ["upd", 1]], [["snap"]]],
        [[["snap"]], [["upd", 1]]],
        [[["unlocked"], ["snap"]], [["upd", 2], ["upd", 3]]],
        [[["unlocked"], ["unlocked"]], [["bad", 4]], [["try", 5]]],
        # valid updates after a writer died on a mismatched pair: what the dead writer tried to store must not count
        [[["upd", 1], ["bad", 9], ["upd", 5]], [["snap"], ["snap"]]],
        [[["bad", 9], ["upd", 3]], [["snap"]]],
        [[["upd", 2], ["bad", 8]], [["upd", 4], ["upd", 6]], [["snap"], ["snap"]]],
        [[["bad", 7], ["try", 3], ["try", 4], ["snap"]]],
    ]
    n_rand = 4000 if tier == "quick" else 60000
    for i in range(n_rand):
        rid += 1
        prog = rng.choice(menu)
        cfg = {"programs": prog, "sc": rng.random() < 0.3, "seed": rng.randrange(1 << 30)}
        x = rng.random()
        if x < 0.35:
            # park the writers after a random number of steps; run the readers / try_update callers alone
            solo = [t + 1 for t, p in enumerate(prog) if any(c[0] in ("snap", "try") for c in p)]
            if rng.random() < 0.5:
                solo = [t for t in solo if all(c[0] == "snap" for c in prog[t - 1])] or solo
            cfg["park_after"] = rng.randrange(0, 40)
            cfg["solo"] = solo
        runs.append({"run": rid, "cfg": cfg, "ops": []})
    # (d') the quantifier of C18 enumerated: every suspension point of two writers (each stopped after a..b of its atomic
    # steps, in either order, lock held or not) x the reader / a try_update caller run alone with extreme reads-from choices
    import itertools
    grid_progs = [[[["upd", 2]], [["upd", 3]], [["snap"]]], [[["upd", 2]], [["try", 3]], [["try", 4], ["snap"]]]]
    step = 1 if tier != "quick" else 2
    rf_sets = list(itertools.product([-1, -2], repeat=5 if tier != "quick" else 3))
    n_grid = 0
    for gp in grid_progs:
        for first in (1, 2):
            second = 3 - first
            for a in range(0, 10, step):
                for b in range(0, 10, step):
                    for rfs in rf_sets:
                        steps = [[first, "", -2]] * a + [[second, "", -2]] * b
                        for j in range(16):
                            steps.append([3, "", rfs[j % len(rfs)]])
                        rid += 1
                        n_grid += 1
                        runs.append({"run": rid, "cfg": {"programs": gp, "sc": False, "seed": rid, "steps": steps, "free_script": True,
                                                         "park_after": a + b, "solo": [3]}, "ops": []})
    B = 3000
    illegal = []
    nontrivial = 0
    for i in range(0, len(runs), B):
        batch = runs[i:i + B]
        trace = core.drive("atomic", batch, work, "atomic%d" % i)
        # coverage statistic: executions in which some load read a stale message or a snapshot retried
        with open(trace) as f:
            nmsg, hit = {}, False
            for line in f:
                e = json.loads(line)
                if e["ev"] == "reset":
                    nmsg, hit = {}, False
                elif e["ev"] == "op" and e["kind"] == "store":
                    nmsg[e["loc"]] = nmsg.get(e["loc"], 1) + 1
                elif e["ev"] == "op" and e["kind"] == "load" and e["rf"] < nmsg.get(e["loc"], 1):
                    hit = True
                elif e["ev"] == "ret" and e["r"].get("k") == "snap" and e["nops"] > 4:
                    hit = True
                elif e["ev"] == "end" and hit:
                    nontrivial += 1
        tv = tlc.validate_trace("AtomicTrace", "AtomicTrace.cfg", trace, os.path.join(work, "tv"), timeout=3000, xmx="8g")
        illegal += tv["drift"]
        tv["drift"] = []
        res.add_tv(tv, {r["run"]: r for r in batch}, "atomic", "edge cover + random schedules", crash_props=("C13", "C18"))
        os.remove(trace)
    if illegal:
        raise core.ToolError("the harness produced executions the memory model rejects (harness bug): %s" % illegal[:3])
    rule = ("distinct executions of the real snapshot/update/try_update code at atomic-operation granularity on the simulated "
            "release/acquire memory: %d scripted paths covering every edge of one AtomicMC graph (1W1R quick / 2W1R thorough; thread, "
            "reads-from index) + %d seeded random schedules x reads-from choices over %d thread programs (RA and SC, about a "
            "third with the writers parked at a random point and readers / try_update run alone) + %d grid executions (two writers "
            "stopped after a, b atomic steps in either order x a reader / try_update caller run alone with oldest/newest "
            "reads-from choices)" % (n_script, n_rand, len(menu), n_grid))
    for p in ("C13", "C18"):
        res.data["witness"][p] = {"count": nontrivial, "rule": "executions (of %d) in which a load read a stale message "
                                  "(not the latest in modification order) or a snapshot had to retry; " % len(runs) + rule}
    res.data["samples"]["*"] = [{k: v for k, v in runs[0]["cfg"].items()}, runs[-1]["cfg"]]


def replay(rep, work):
    trace = core.drive("atomic", [rep["run"]], work, "replay")
    tv = tlc.validate_trace("AtomicTrace", "AtomicTrace.cfg", trace, os.path.join(work, "tv"))
    return tv["viol"] + core.crash_viols(("C13", "C18"))
