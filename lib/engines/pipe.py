"""Engine `pipe`: OwningIovec (C03, C04, C05, C20, C10a).

pipe.random : seeded random operation histories over up to 3 live objects (every producer and consumer
              method, placeholders filled in any order, clones / takes, arena flush / swap / reserve,
              anchored pushes, held AnchoredSlices), each ending with the epilogue "fill every hole,
              consume everything, drop everything"; TLC validates every event against IovecPipe.tla.
"""
import hashlib
import json
import os
import random

from .. import core, tlc, graph_cover, tlaval

SIZES = [1, 2, 3, 5, 17, 63, 64, 65, 100, 200, 255, 256, 257, 300, 1000, 4000, 4095, 4096, 4097, 5000, 9000]


class Gen:
    """Generator-side bookkeeping (which objects exist, which holes are open); not an oracle."""

    def __init__(self, rng, profile):
        self.rng = rng
        self.profile = profile
        self.objs = {}        # id -> {"pos": appended counter, "pend": {hole id: n}, "bytes": approx unconsumed}
        self.next_obj = 1
        self.next_hole = 1
        self.next_held = 1
        self.held = {}        # h -> n
        self.ops = []

    def data(self, o, n=None):
        rng = self.rng
        if n is None:
            n = rng.choice(SIZES) if rng.random() < 0.8 else rng.randrange(0, 400)
        st = self.objs[o]
        d = [0, st["pos"] % 251, n]
        st["pos"] += n
        st["bytes"] += n
        return d

    def new_obj(self):
        o = self.next_obj
        self.next_obj += 1
        self.objs[o] = {"pos": self.rng.randrange(251), "pend": {}, "bytes": 0}
        return o

    def step(self):
        rng = self.rng
        live = list(self.objs)
        if not live or (len(live) < 2 and rng.random() < 0.05):
            o = self.new_obj()
            if rng.random() < 0.25:
                ds = [self.data(o, rng.choice([0, 1, 64, 65, 300])) for _ in range(rng.randrange(0, 4))]
                self.ops.append({"ev": "from_slices", "o": o, "data": ds,
                                 "how": rng.choice(["slices", "arena", "iter", "iter_ref"])})
            else:
                self.ops.append({"ev": "new", "o": o})
            return
        o = rng.choice(live)
        st = self.objs[o]
        x = rng.random()
        p = self.profile
        w_reg = {"storm": 0.22, "mixed": 0.08, "clone": 0.04, "anchored": 0.05}[p]
        w_fill = {"storm": 0.18, "mixed": 0.08, "clone": 0.04, "anchored": 0.05}[p]
        if x < 0.30:
            m = rng.choice(["auto", "auto", "borrow", "copy", "copy", "sink_copy", "sink_borrow"])
            self.ops.append({"ev": "push", "o": o, "m": m, "d": self.data(o)})
        elif x < 0.34:
            ds = [self.data(o, rng.choice([0, 1, 64, 65, 256, 300])) for _ in range(rng.randrange(1, 4))]
            self.ops.append({"ev": "extend", "o": o, "data": ds})
        elif x < 0.34 + (0.15 if p == "anchored" else 0.05):
            self.ops.append({"ev": "push_anchored", "o": o, "d": self.data(o, rng.choice([1, 64, 65, 100, 300, 4000, 5000]))})
        elif x < 0.45 and len(self.held) < 3:
            h = self.next_held
            self.next_held += 1
            n = rng.choice([1, 10, 100, 300, 4000])
            self.held[h] = n
            op = {"ev": "hold", "o": o, "h": h, "d": [0, rng.randrange(251), n]}
            if rng.random() < 0.3:
                op["count"] = n + rng.choice([1, 100, 5000])
            self.ops.append(op)
        elif x < 0.49 and self.held:
            h = rng.choice(list(self.held))
            what = rng.choice(["skip", "drop_suffix", "split", "clone", "push", "release", "release"])
            op = {"ev": "held_op", "h": h, "what": what, "o": o}
            if what in ("skip", "drop_suffix", "split"):
                op["n"] = rng.choice([0, 1, 5, self.held[h] // 2, self.held[h], self.held[h] + 3])
            if what in ("split", "clone"):
                op["h2"] = self.next_held
                self.held[op["h2"]] = self.held[h]
                self.next_held += 1
            if what == "push":
                st["pos"] += 0       # content is position-independent here
            if what in ("push", "release"):
                del self.held[h]
            self.ops.append(op)
        elif x < 0.49 + w_reg and len(st["pend"]) < (18 if p == "storm" else 5):
            if rng.random() < 0.08:
                # a placeholder of zero bytes: never pending, but its Backref can still be "filled"
                hid = self.next_hole
                self.next_hole += 1
                st.setdefault("zeros", []).append(hid)
                self.ops.append({"ev": "register", "o": o, "n": 0, "id": hid})
                return
            n = rng.choice([1, 1, 2, 2, 3, 8, 65, 100, 300]) if rng.random() < 0.5 else rng.choice([1, 2, 3])
            hid = self.next_hole
            self.next_hole += 1
            st["pend"][hid] = n
            st["pos"] += n
            st["bytes"] += n
            op = {"ev": "register", "o": o, "n": n, "id": hid}
            if rng.random() < 0.15:
                op["alias"] = True
            self.ops.append(op)
        elif x < 0.49 + w_reg + w_fill and st.get("zeros") and rng.random() < 0.5:
            hid = st["zeros"].pop(rng.randrange(len(st["zeros"])))
            self.ops.append({"ev": "backfill", "o": o, "id": hid, "v": 252})
        elif x < 0.49 + w_reg + w_fill and st["pend"]:
            hid = rng.choice(list(st["pend"]))
            if rng.random() < 0.04:
                # wrong size: documented panic; this placeholder stays pending for the rest of the run
                st.setdefault("dead", set()).add(hid)
                del st["pend"][hid]
                self.ops.append({"ev": "bad_backfill", "o": o, "id": hid})
            else:
                del st["pend"][hid]
                self.ops.append({"ev": "backfill", "o": o, "id": hid, "v": 252 + hid % 4})
        elif x < 0.80:
            kind = rng.choice(["consume", "consume", "advance", "advance", "read", "pop"])
            if kind == "consume":
                n = rng.choice([0, 1, 1, 2, 3, 10, 1000])
            elif kind == "pop":
                n = 1
            else:
                n = rng.choice([0, 1, 2, 63, 64, 65, 100, 300, 4096, max(1, st["bytes"] // 2), st["bytes"], st["bytes"] + 7])
            op = {"ev": kind, "o": o, "n": n}
            if kind == "read" and rng.random() < 0.2:
                op = {"ev": "read", "o": o, "n": 10 ** 9, "to_end": True}
            self.ops.append(op)
        elif x < 0.84:
            self.ops.append(rng.choice([{"ev": "flush", "o": o}, {"ev": "ensure", "o": o, "n": rng.choice([1, 100, 5000, 70000])},
                                        {"ev": "take_arena", "o": o}]))
        elif x < 0.86 and len(live) >= 2:
            self.ops.append({"ev": "swap_arena", "o": o, "p": rng.choice([q for q in live if q != o])})
        elif x < 0.86 + (0.08 if p == "clone" else 0.03) and len(live) < 3 and (not st["pend"] or rng.random() < 0.15) \
                and not st.get("dead"):
            to = self.next_obj
            self.next_obj += 1
            self.objs[to] = {"pos": st["pos"], "pend": {}, "bytes": st["bytes"]}
            self.ops.append({"ev": "clone", "o": o, "to": to})
        elif x < 0.875 + (0.08 if p == "clone" else 0.03) and len(live) >= 2 and not st.get("dead") and (not st["pend"] or rng.random() < 0.15):
            # clone_from onto another live object (whatever it holds, pending placeholders included)
            to = rng.choice([q for q in live if q != o])
            self.objs[to] = {"pos": st["pos"], "pend": {}, "bytes": st["bytes"]}
            self.ops.append({"ev": "clone_from", "o": o, "to": to})
        elif x < 0.93 + (0.03 if p == "clone" else 0.0) and len(live) < 3:
            to = self.next_obj
            self.next_obj += 1
            self.objs[to] = {"pos": st["pos"], "pend": dict(st["pend"]), "bytes": st["bytes"]}
            st["pend"] = {}
            st["bytes"] = 0
            self.ops.append({"ev": "take", "o": o, "to": to})
        elif x < 0.96:
            st["pend"] = {}
            st["bytes"] = 0
            self.ops.append({"ev": "clear", "o": o})
        elif x < 0.98 and len(live) >= 2:
            del self.objs[o]
            self.ops.append({"ev": "drop", "o": o})
        else:
            self.ops.append({"ev": "push", "o": o, "m": "copy", "d": self.data(o, 1)})

    def epilogue(self):
        rng = self.rng
        for o, st in list(self.objs.items()):
            holes = list(st["pend"])
            rng.shuffle(holes)
            for hid in holes:
                self.ops.append({"ev": "backfill", "o": o, "id": hid, "v": 252 + hid % 4})
            st["pend"] = {}
        for o, st in list(self.objs.items()):
            for _ in range(rng.randrange(0, 4)):
                kind = rng.choice(["consume", "advance", "read"])
                n = rng.choice([1, 2, 65, 300, 5000])
                self.ops.append({"ev": kind, "o": o, "n": n})
            self.ops.append({"ev": rng.choice(["consume", "advance", "read"]), "o": o, "n": 10 ** 7})
        for h in list(self.held):
            self.ops.append({"ev": "held_op", "h": h, "what": "release", "o": 0})
        order = list(self.objs)
        rng.shuffle(order)
        for o in order:
            self.ops.append({"ev": "drop", "o": o})


def gen_runs(rng, n_runs, n_ops):
    runs = []
    for i in range(n_runs):
        g = Gen(rng, rng.choice(["mixed", "mixed", "storm", "clone", "anchored"]))
        for _ in range(n_ops):
            g.step()
        g.epilogue()
        runs.append({"run": i + 1, "cfg": {"profile": g.profile}, "ops": g.ops})
    return runs


# deterministic scenarios that every run of the engine includes (witnesses of the interesting corners)
def scripted_runs(start):
    R = []

    def run(ops):
        R.append({"run": start + len(R), "cfg": {"profile": "scripted"}, "ops": ops})

    # four placeholders filled 1st, 2nd, then 4th (finding F2 through SortedDeque::remove), then 3rd
    ops = [{"ev": "new", "o": 1}]
    for i in range(1, 5):
        ops += [{"ev": "register", "o": 1, "n": 2, "id": i}, {"ev": "push", "o": 1, "m": "copy", "d": [0, i, 300]}]
    for i in (1, 2, 4, 3):
        ops.append({"ev": "backfill", "o": 1, "id": i, "v": 252})
    ops += [{"ev": "read", "o": 1, "n": 10 ** 6}, {"ev": "drop", "o": 1}]
    run(ops)
    # placeholder merged into a copied slice, byte-wise consumption right up to it, then fill
    ops = [{"ev": "new", "o": 1}, {"ev": "push", "o": 1, "m": "copy", "d": [0, 0, 10]},
           {"ev": "register", "o": 1, "n": 3, "id": 1}, {"ev": "push", "o": 1, "m": "copy", "d": [0, 13, 20]},
           {"ev": "advance", "o": 1, "n": 4}, {"ev": "advance", "o": 1, "n": 100}, {"ev": "consume", "o": 1, "n": 5},
           {"ev": "backfill", "o": 1, "id": 1, "v": 253}, {"ev": "advance", "o": 1, "n": 100}, {"ev": "drop", "o": 1}]
    run(ops)
    # consume, clear, reuse (size accounting after clear)
    ops = [{"ev": "new", "o": 1}, {"ev": "push", "o": 1, "m": "auto", "d": [0, 0, 103]}, {"ev": "read", "o": 1, "n": 103},
           {"ev": "clear", "o": 1}, {"ev": "push", "o": 1, "m": "copy", "d": [0, 5, 5]},
           {"ev": "push", "o": 1, "m": "auto", "d": [0, 10, 503]}, {"ev": "consume", "o": 1, "n": 9}, {"ev": "drop", "o": 1}]
    run(ops)
    # take with a placeholder pending: the left-behind object is empty and usable, the taken one can backfill
    ops = [{"ev": "new", "o": 1}, {"ev": "push", "o": 1, "m": "copy", "d": [0, 0, 7]}, {"ev": "register", "o": 1, "n": 2, "id": 1},
           {"ev": "push", "o": 1, "m": "auto", "d": [0, 9, 100]}, {"ev": "take", "o": 1, "to": 2},
           {"ev": "push", "o": 1, "m": "copy", "d": [0, 50, 5]}, {"ev": "register", "o": 1, "n": 1, "id": 2},
           {"ev": "backfill", "o": 2, "id": 1, "v": 254}, {"ev": "backfill", "o": 1, "id": 2, "v": 255},
           {"ev": "consume", "o": 2, "n": 100}, {"ev": "consume", "o": 1, "n": 100}, {"ev": "drop", "o": 1}, {"ev": "drop", "o": 2}]
    run(ops)
    # clone of anchored (borrowed-from-arena) content, original cleared and its cache flushed, clone read afterwards
    ops = [{"ev": "new", "o": 1}, {"ev": "push_anchored", "o": 1, "d": [0, 0, 300]}, {"ev": "clone", "o": 1, "to": 2},
           {"ev": "clear", "o": 1}, {"ev": "flush", "o": 1}, {"ev": "push", "o": 1, "m": "copy", "d": [0, 7, 5000]},
           {"ev": "read", "o": 2, "n": 100}, {"ev": "drop", "o": 1}, {"ev": "advance", "o": 2, "n": 1000}, {"ev": "drop", "o": 2}]
    run(ops)
    # earlier slice + anchored slice, cache flushed, partial consumption, rest read (zero-count anchors)
    ops = [{"ev": "new", "o": 1}, {"ev": "push", "o": 1, "m": "borrow", "d": [0, 0, 100]},
           {"ev": "push_anchored", "o": 1, "d": [0, 100, 200]}, {"ev": "flush", "o": 1},
           {"ev": "ensure", "o": 1, "n": 70000}, {"ev": "consume", "o": 1, "n": 1}, {"ev": "advance", "o": 1, "n": 50},
           {"ev": "read", "o": 1, "n": 1000}, {"ev": "drop", "o": 1}]
    run(ops)
    # anchors of chunk K, another chunk, K again; clone; the original goes away first; the clone is consumed slice by slice
    ops = [{"ev": "new", "o": 1}, {"ev": "hold", "o": 1, "h": 1, "d": [0, 0, 300]}, {"ev": "hold", "o": 1, "h": 2, "d": [0, 44, 300]},
           {"ev": "ensure", "o": 1, "n": 70000}, {"ev": "hold", "o": 1, "h": 3, "d": [0, 88, 300]},
           {"ev": "held_op", "h": 1, "what": "push", "o": 1}, {"ev": "held_op", "h": 3, "what": "push", "o": 1},
           {"ev": "held_op", "h": 2, "what": "push", "o": 1}, {"ev": "clone", "o": 1, "to": 2}, {"ev": "drop", "o": 1},
           {"ev": "consume", "o": 2, "n": 1}, {"ev": "consume", "o": 2, "n": 1}, {"ev": "read", "o": 2, "n": 1000},
           {"ev": "drop", "o": 2}]
    run(ops)
    # an anchored slice of the object's own arena (its chunk is then held by a zero-count back anchor only), followed by a
    # copy that does not fit in what is left of that chunk but would fit in the chunk
    for first, big in ((300, 4000), (100, 3997), (2000, 2100)):
        ops = [{"ev": "new", "o": 1}, {"ev": "push_anchored", "o": 1, "d": [0, 0, first]},
               {"ev": "push", "o": 1, "m": "copy", "d": [0, first % 251, big]}, {"ev": "read", "o": 1, "n": 10 ** 6}, {"ev": "drop", "o": 1}]
        run(ops)
    ops = [{"ev": "new", "o": 1}, {"ev": "push", "o": 1, "m": "copy", "d": [0, 0, 10]}, {"ev": "hold", "o": 1, "h": 1, "d": [0, 10, 300]},
           {"ev": "held_op", "h": 1, "what": "push", "o": 1}, {"ev": "push", "o": 1, "m": "copy", "d": [0, 59, 3900]},
           {"ev": "consume", "o": 1, "n": 1}, {"ev": "read", "o": 1, "n": 10 ** 6}, {"ev": "drop", "o": 1}]
    run(ops)
    ops = [{"ev": "new", "o": 1}, {"ev": "ensure", "o": 1, "n": 70000}, {"ev": "push_anchored", "o": 1, "d": [0, 0, 1000]},
           {"ev": "push", "o": 1, "m": "copy", "d": [0, 247, 130500]}, {"ev": "advance", "o": 1, "n": 500},
           {"ev": "read", "o": 1, "n": 10 ** 6}, {"ev": "drop", "o": 1}]
    run(ops)
    # ten placeholders in flight, filled in an order that removes from the middle, the back and the front of the deque
    ops = [{"ev": "new", "o": 1}]
    for i in range(1, 11):
        ops += [{"ev": "register", "o": 1, "n": 2, "id": i}, {"ev": "push", "o": 1, "m": "copy", "d": [0, i, 70]}]
    for i in (5, 9, 7, 3, 10, 6, 8, 4, 2, 1):
        ops += [{"ev": "backfill", "o": 1, "id": i, "v": 252 + i % 4}, {"ev": "advance", "o": 1, "n": 30}]
    ops += [{"ev": "read", "o": 1, "n": 10 ** 6}, {"ev": "drop", "o": 1}]
    run(ops)
    # sixteen placeholders; nine fills from the middle before the front ones (tombstones pile up in the backref deque)
    ops = [{"ev": "new", "o": 1}]
    for i in range(16):
        ops += [{"ev": "register", "o": 1, "n": 1, "id": i + 1}, {"ev": "push", "o": 1, "m": "copy", "d": [0, i, 66]}]
    order = [1, 2, 3, 4, 8, 9, 10, 11, 6] + [0, 5, 7, 12, 13, 14, 15]
    for k, i in enumerate(order):
        ops.append({"ev": "backfill", "o": 1, "id": i + 1, "v": 252 + i % 4})
        if k % 3 == 2:
            ops.append({"ev": "advance", "o": 1, "n": 50})
    ops += [{"ev": "read", "o": 1, "n": 10 ** 6}, {"ev": "drop", "o": 1}]
    run(ops)
    # a placeholder whose pattern is read from the tip of the object's own arena, with a clone looking on; bytes consumed
    # before a take, a placeholder pending across it, another one registered on the taken value
    ops = [{"ev": "new", "o": 1}, {"ev": "push", "o": 1, "m": "copy", "d": [0, 0, 10]}, {"ev": "clone", "o": 1, "to": 2},
           {"ev": "register", "o": 1, "n": 4, "id": 1, "alias": True}, {"ev": "backfill", "o": 1, "id": 1, "v": 254},
           {"ev": "read", "o": 2, "n": 100}, {"ev": "read", "o": 1, "n": 100}, {"ev": "drop", "o": 1}, {"ev": "drop", "o": 2}]
    run(ops)
    ops = [{"ev": "new", "o": 1}, {"ev": "push", "o": 1, "m": "borrow", "d": [0, 0, 100]}, {"ev": "push", "o": 1, "m": "copy", "d": [0, 100, 20]},
           {"ev": "consume", "o": 1, "n": 1}, {"ev": "register", "o": 1, "n": 2, "id": 1}, {"ev": "take", "o": 1, "to": 2},
           {"ev": "register", "o": 2, "n": 2, "id": 2}, {"ev": "push", "o": 2, "m": "copy", "d": [0, 124, 30]},
           {"ev": "backfill", "o": 2, "id": 2, "v": 253}, {"ev": "backfill", "o": 2, "id": 1, "v": 252},
           {"ev": "read", "o": 2, "n": 1000}, {"ev": "drop", "o": 1}, {"ev": "drop", "o": 2}]
    run(ops)
    # a zero-byte placeholder filled while a real one is pending
    ops = [{"ev": "new", "o": 1}, {"ev": "push", "o": 1, "m": "copy", "d": [0, 0, 5]}, {"ev": "register", "o": 1, "n": 2, "id": 1},
           {"ev": "register", "o": 1, "n": 0, "id": 2}, {"ev": "push", "o": 1, "m": "copy", "d": [0, 7, 9]},
           {"ev": "backfill", "o": 1, "id": 2, "v": 252}, {"ev": "read", "o": 1, "n": 100},
           {"ev": "backfill", "o": 1, "id": 1, "v": 253}, {"ev": "read", "o": 1, "n": 100}, {"ev": "drop", "o": 1}]
    run(ops)
    # clone_from onto an object that still has a placeholder pending: it becomes a plain snapshot of the source
    ops = [{"ev": "new", "o": 1}, {"ev": "new", "o": 2}, {"ev": "push", "o": 1, "m": "copy", "d": [0, 0, 40]},
           {"ev": "push", "o": 2, "m": "copy", "d": [0, 5, 7]}, {"ev": "register", "o": 2, "n": 2, "id": 1},
           {"ev": "push", "o": 2, "m": "copy", "d": [0, 9, 9]}, {"ev": "clone_from", "o": 1, "to": 2},
           {"ev": "read", "o": 2, "n": 10}, {"ev": "push", "o": 2, "m": "copy", "d": [0, 40, 5]}, {"ev": "read", "o": 2, "n": 100},
           {"ev": "read", "o": 1, "n": 100}, {"ev": "drop", "o": 1}, {"ev": "drop", "o": 2}]
    run(ops)
    # take when the very first slice is a pending placeholder
    ops = [{"ev": "new", "o": 1}, {"ev": "register", "o": 1, "n": 2, "id": 1}, {"ev": "push", "o": 1, "m": "copy", "d": [0, 2, 50]},
           {"ev": "take", "o": 1, "to": 2}, {"ev": "push", "o": 1, "m": "copy", "d": [0, 7, 3]},
           {"ev": "backfill", "o": 2, "id": 1, "v": 253}, {"ev": "read", "o": 2, "n": 100}, {"ev": "read", "o": 1, "n": 100},
           {"ev": "drop", "o": 1}, {"ev": "drop", "o": 2}]
    run(ops)
    # a backfill of the wrong size panics and leaves the placeholder pending; a clone taken while it is pending hides it too
    ops = [{"ev": "new", "o": 1}, {"ev": "push", "o": 1, "m": "copy", "d": [0, 0, 5]}, {"ev": "register", "o": 1, "n": 2, "id": 1},
           {"ev": "push", "o": 1, "m": "copy", "d": [0, 7, 30]}, {"ev": "clone", "o": 1, "to": 2},
           {"ev": "bad_backfill", "o": 1, "id": 1}, {"ev": "read", "o": 1, "n": 100}, {"ev": "read", "o": 2, "n": 100},
           {"ev": "drop", "o": 1}, {"ev": "drop", "o": 2}]
    run(ops)
    return R


def run_random(res, work, tier, seed):
    os.makedirs(work, exist_ok=True)
    rng = random.Random(seed * 7919 + 3)
    n_runs, n_ops = (400, 60) if tier == "quick" else (6000, 80)
    runs = gen_runs(rng, n_runs, n_ops)
    runs += scripted_runs(len(runs) + 1)
    by_id = {r["run"]: r for r in runs}
    # batches keep TLC's memory bounded
    B = 1500
    nontrivial = set()
    for i in range(0, len(runs), B):
        batch = runs[i:i + B]
        trace = core.drive("pipe", batch, work, "pipe%d" % i)
        tv = tlc.validate_trace("PipeTrace", "PipeTrace.cfg", trace, os.path.join(work, "tv"), timeout=3000, xmx="10g")
        res.add_tv(tv, {r["run"]: r for r in batch}, "pipe", "seeded random histories + scripted corners", crash_props=("C05",))
        # coverage statistic: runs with >= 2 holes in flight filled out of order
        with open(trace) as f:
            cur, order, inflight, hit = None, [], {}, False
            for line in f:
                e = json.loads(line)
                if e["ev"] == "reset":
                    cur, inflight, hit = e["run"], {}, False
                elif e["ev"] == "register" and e.get("skip") == 0:
                    inflight[e["id"]] = True
                elif e["ev"] == "backfill" and e.get("skip") == 0:
                    if inflight and e["id"] != min(inflight):
                        hit = True
                    inflight.pop(e["id"], None)
                elif e["ev"] == "end" and hit:
                    nontrivial.add(hashlib.sha1(json.dumps(by_id[cur]["ops"]).encode()).hexdigest())
        os.remove(trace)
    rule = ("distinct operation histories of the real OwningIovec in which a placeholder was backfilled while an "
            "older one was still pending (out-of-order fill with >= 2 in flight); %d seeded random histories of %d "
            "operations + epilogue over up to 3 live objects, plus %d scripted corner histories"
            % (n_runs, n_ops, len(runs) - n_runs))
    for p in ("C03", "C04", "C05", "C20", "C10"):
        res.data["witness"][p] = {"count": len(nontrivial), "rule": rule}
    res.data["samples"]["*"] = [{"cfg": runs[0]["cfg"], "ops": runs[0]["ops"][:20]},
                                {"cfg": runs[-1]["cfg"], "ops": runs[-1]["ops"]}]


# ---------------------------------------------------------------- design level (I-spec) + spec -> impl replay
SCALE = {1: [1, 3, 64], 2: [65, 200, 256], 3: [257, 300], 5: [4097, 5000]}


def _mc_design(res, work, objs, budget, dump=None, bug=False):
    consts = ("SMALL = 1\n  OPP = 2\n  ChunkSizes <- CS_tiny\n  PushSizes = {1, 2, 3, 5}\n  MaxObjs = %d\n  Budget = %d\n"
              "  BugAnchor = %s\n" % (objs, budget, "TRUE" if bug else "FALSE"))
    cfg = os.path.join(work, "OwningIovecMC_%d_%d%s.cfg" % (objs, budget, "_bug" if bug else ""))
    with open(cfg, "w") as f:
        f.write("SPECIFICATION Spec\nCONSTANTS\n  %sINVARIANTS Refines StableOK SlicesLive NoOverlap AnchorSum BackrefTargets "
                "NoStuckAnchor NoLeakAtEnd\nCHECK_DEADLOCK FALSE\n" % consts)
    r = tlc.run_tlc("OwningIovecMC", cfg, os.path.join(work, "mc"), workers=12, timeout=6000, dump_dot=dump, xmx="12g")
    return r, consts


def _label_ops(labels, rng):
    """labels of one path of the OwningIovecMC graph -> harness operations (sizes scaled to the real thresholds)"""
    ops = [{"ev": "new", "o": 1}]
    pos = {1: 0, 2: 0}
    for lab in labels:
        lab = tlaval.unescape_dot(lab)
        name, args = lab.split("(", 1)
        args = args[:-1]
        if name == "DoBackfillId":
            hid = int(args)
            ops.append({"ev": "backfill", "o": 1, "id": hid, "v": 252 + hid % 4, "any_obj": True})
            continue
        if name == "DoReleaseId":
            ops.append({"ev": "held_op", "h": int(args), "what": "release", "o": 0})
            continue
        a = tlaval.parse("<<" + args + ">>")
        o = a[0]
        if name == "DoHoldShort":
            got = {0: 0, 1: rng.choice([1, 64])}[a[2]]
            ops.append({"ev": "hold", "o": o, "h": sum(1 for x in ops if x["ev"] == "hold") + 1,
                        "d": [0, rng.randrange(251), got], "count": rng.choice([300, 5000])})
            continue
        if name == "DoSwapArena":
            ops.append({"ev": "swap_arena", "o": o, "p": a[1]})
            continue
        if name in ("DoPush", "DoPushAnchored", "DoHold"):
            n = rng.choice(SCALE[a[1]])
            d = [0, pos.get(o, 0) % 251, n]
            if name == "DoPush":
                pos[o] = pos.get(o, 0) + n
                ops.append({"ev": "push", "o": o, "m": a[2], "d": d})
            elif name == "DoPushAnchored":
                pos[o] = pos.get(o, 0) + n
                ops.append({"ev": "push_anchored", "o": o, "d": d})
            else:
                ops.append({"ev": "hold", "o": o, "h": sum(1 for x in ops if x["ev"] == "hold") + 1, "d": [0, rng.randrange(251), n]})
        elif name == "DoRegister":
            ops.append({"ev": "register", "o": o, "n": a[1], "id": sum(1 for x in ops if x["ev"] == "register") + 1})
            pos[o] = pos.get(o, 0) + a[1]
        elif name == "DoConsume":
            ops.append({"ev": "consume", "o": o, "n": 1000 if a[1] == 9 else a[1]})
        elif name == "DoAdvance":
            ops.append({"ev": rng.choice(["advance", "read"]), "o": o, "n": {1: 1, 2: 100, 9: 10 ** 7}[a[1]]})
        elif name == "DoClear":
            ops.append({"ev": "clear", "o": o})
        elif name == "DoFlush":
            ops.append({"ev": "flush", "o": o})
        elif name == "DoEnsure":
            ops.append({"ev": "ensure", "o": o, "n": 300})
        elif name == "DoDrop":
            ops.append({"ev": "drop", "o": o})
        elif name == "DoClone":
            ops.append({"ev": "clone", "o": o, "to": a[1]})
            pos[a[1]] = pos.get(o, 0)
        elif name == "DoTake":
            ops.append({"ev": "take", "o": o, "to": a[1]})
            pos[a[1]] = pos.get(o, 0)
            pos[o] = 0
        else:
            raise core.ToolError("unknown OwningIovecMC action label %r" % lab)
    # epilogue: fill what is pending, consume everything, drop everything (harness skips what does not exist)
    for x in [x for x in ops if x["ev"] == "register"]:
        ops.append({"ev": "backfill", "o": 1, "id": x["id"], "v": 253, "any_obj": True})
    for o in (1, 2):
        ops.append({"ev": "read", "o": o, "n": 10 ** 7})
    for x in [x for x in ops if x["ev"] == "hold"]:
        ops.append({"ev": "held_op", "h": x["h"], "what": "release", "o": 0})
    for o in (2, 1):
        ops.append({"ev": "drop", "o": o})
    return ops


def run_design(res, work, tier, seed):
    os.makedirs(work, exist_ok=True)
    rng = random.Random(seed * 7919 + 33)
    plans = [(1, 4), (2, 4)] if tier == "quick" else [(1, 5), (2, 5), (3, 4)]
    # the arena's chunk-size policy with the REAL constants (assumption-only module: TLC evaluates the ASSUMEs)
    ra = tlc.run_tlc("ArenaSizes", "ArenaSizes.cfg", os.path.join(work, "mc_sizes"), workers=1, timeout=300)
    if ra["violated"] or "Assumption" in ra["out"]:
        raise core.ToolError("ArenaSizes assumptions fail:\n" + ra["out"][-2000:])
    res.data["notes"].append("ArenaSizes.tla: the transcribed find_hint_size with the real size sequence satisfies the crate's unit "
                             "expectations and hint >= len / strict growth below the cap / sticky cap on a grid of lengths and capacities")
    for objs, budget in plans:
        r, consts = _mc_design(res, work, objs, budget)
        if r["violated"]:
            raise core.ToolError("design check OwningIovecMC violated %s (specification error):\n%s" % (r["violated"], r["out"][-3000:]))
        res.add_mc("OwningIovecMC: transcribed OwningIovec/GlobalDeque/ByteArena refines the byte pipe; slices live, anchors "
                   "sum up, backrefs on target, no stuck anchor (%d object(s), %d operations)" % (objs, budget), r, consts.replace("\n", ";"))
    rb, _ = _mc_design(res, work, 1, 4, bug=True)
    if rb["violated"] != "SlicesLive":
        raise core.ToolError("OwningIovecMC with BugAnchor=TRUE should violate SlicesLive, got %r" % rb["violated"])
    res.data["notes"].append("OwningIovecMC with BugAnchor=TRUE (consume drops every zero-count anchor) violates SlicesLive as expected")
    # spec -> impl: every edge of the (2 objects, 3 or 4 operations) graph on the real OwningIovec
    dot = os.path.join(work, "oi_graph")
    gb = 3 if tier == "quick" else 4
    r, _ = _mc_design(res, work, 2, gb, dump=dot)
    g = graph_cover.parse_dot(dot + ".dot")
    os.remove(dot + ".dot")
    paths = graph_cover.edge_cover(g, max_run=12)
    res.data["edge_cover"].append({"graph": "OwningIovecMC 2 objects budget %d" % gb, "edges": len(g.edges), "paths": len(paths),
                                   "ops": sum(len(p) for p in paths),
                                   "note": "tiny sizes 1/2/3/5 are replayed as real sizes around 64 / 256 / 4096"})
    runs = []
    for i, p in enumerate(paths):
        runs.append({"run": i + 1, "cfg": {"profile": "design"}, "ops": _label_ops([g.edges[e][2] for e in p], rng)})
    B = 4000
    for i in range(0, len(runs), B):
        batch = runs[i:i + B]
        trace = core.drive("pipe", batch, work, "pipe_design%d" % i)
        tv = tlc.validate_trace("PipeTrace", "PipeTrace.cfg", trace, os.path.join(work, "tv"), timeout=3000, xmx="10g")
        res.add_tv(tv, {r["run"]: r for r in batch}, "pipe", "edge cover of the OwningIovecMC graph", crash_props=("C05",))
        os.remove(trace)
    rule = ("distinct operation histories replayed from the OwningIovecMC state graph (every edge covered; %d paths) on the real "
            "OwningIovec, sizes scaled to the real thresholds" % len(runs))
    for p in ("C03", "C04", "C05", "C20", "C10"):
        res.data["witness"][p] = {"count": len(runs), "rule": rule}
    res.data["samples"]["*"] = [{"ops": runs[len(runs) // 2]["ops"]}]


def replay(rep, work):
    run = rep["run"]
    trace = core.drive("pipe", [run], work, "replay")
    tv = tlc.validate_trace("PipeTrace", "PipeTrace.cfg", trace, os.path.join(work, "tv"))
    return tv["viol"] + core.crash_viols(("C05",))
