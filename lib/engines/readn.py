"""Engine `readn`: C17, read_n under arbitrary reader behaviour.

Design: ReadNMC checks the transcribed retry loop against the declared result for all scripts up to a
bound x counts x attempt limits.  Conformance: every one of those configurations (every path of the
loop's graph) is executed on the real code through five entry points and several arena states; TLC
validates the recorded reader calls, results and codec outputs.
"""
import itertools
import os
import random

from .. import core, tlc, apalache

RESP = [1, 2, 3, 0, -1, -2, -3]
ENTRIES = ["arena", "enc_read_n", "dec_read_n", "encode_read", "decode_read"]


def run_readn(res, work, tier, seed):
    os.makedirs(work, exist_ok=True)
    ms, mc, ma = (4, 4, 5) if tier == "quick" else (5, 5, 6)
    cfg = os.path.join(work, "ReadNMC.cfg")
    consts = "MaxScript = %d\n  MaxCount = %d\n  MaxAttempts = %d\n" % (ms, mc, ma)
    with open(cfg, "w") as f:
        f.write("SPECIFICATION Spec\nCONSTANTS\n  %sINVARIANTS Agrees Bounded\nCHECK_DEADLOCK FALSE\n" % consts)
    r = tlc.run_tlc("ReadNMC", cfg, os.path.join(work, "mc"), workers=8, timeout=3000)
    if r["violated"]:
        raise core.ToolError("design check ReadNMC violated %s (specification error):\n%s" % (r["violated"], r["out"][-3000:]))
    res.add_mc("ReadNMC: transcribed read_n retry loop = declared result, all scripts <= %d x count 0..%d x attempts 1..%d"
               % (ms, mc, ma), r, consts.replace("\n", ";"))
    t1 = apalache.check("ReadNInd", "IndInv", work, init="Init", length=0)
    t2 = apalache.check("ReadNInd", "IndInv", work, init="IndInit", length=1)
    res.data["notes"].append("Apalache (unbounded count / attempts / reader behaviour): calls <= max_attempts, got <= count, every "
                             "request is in 1..count: inductive invariant of the retry loop (base %.1fs, step %.1fs)" % (t1, t2))
    rng = random.Random(seed * 7919 + 17)
    runs = []
    rid = 0
    for n in range(0, ms + 1):
        for script in itertools.product(RESP, repeat=n):
            for count in range(0, mc + 1):
                for attempts in range(1, ma + 1):
                    # every configuration on the arena entry with a rotating arena state, and on one rotating codec entry
                    rid += 1
                    prep = rng.choice([-1, 0, 1, max(count - 1, 0), count, count + 1])
                    runs.append({"run": rid, "cfg": {"entry": "arena", "script": list(script), "count": count,
                                                     "attempts": attempts, "prep": prep}, "ops": []})
                    rid += 1
                    runs.append({"run": rid, "cfg": {"entry": ENTRIES[1 + rid % 4], "script": list(script), "count": count,
                                                     "attempts": attempts, "prep": -1}, "ops": []})
    n_enum = rid
    # larger counts / longer scripts, all entry points
    for _ in range(2000 if tier == "quick" else 40000):
        rid += 1
        count = rng.choice([1, 2, 5, 17, 64, 65, 200, 4096, 5000])
        script = [rng.choice([1, 2, 3, 7, 50, 4096, 0, -1, -1, -2, -3]) for _ in range(rng.randrange(0, 9))]
        runs.append({"run": rid, "cfg": {"entry": rng.choice(ENTRIES), "script": script, "count": min(count, 200) if True else count,
                                         "attempts": rng.choice([1, 2, 3, 5, 8, 1000]),
                                         "prep": rng.choice([-1, 0, 1, count - 1, count])}, "ops": []})
    # counts at the arena's chunk-size boundaries, on fresh / nearly full / already-maximal arenas
    mib = 1 << 20
    for count in (4095, 4096, 4097, mib - 1, mib, mib + 1, 2 * mib + 3):
        for prep in (-1, -2, -3, 0, 1):
            for script in ([2 * mib], [5, 0], [-1, 100, -1, 2 * mib], [-2], [0], [-1] * 12, [-1, -1, -3]):
                for entry in ("arena", "encode_read", "enc_read_n", "dec_read_n"):
                    if entry != "arena" and prep >= 0:
                        continue
                    if entry == "encode_read" and count > 5000 and max(script) > 5000:
                        continue        # (megabytes of encoder output per run: the long-stream part covers encode_read at this size)
                    rid += 1
                    runs.append({"run": rid, "cfg": {"entry": entry, "script": script, "count": count,
                                                     "attempts": 10, "prep": prep}, "ops": []})
    # back-to-back 1 MiB reads on the same codec are covered by the long-stream part (codec.footprint, 'read' method)
    # the second hard error of the scripts (-3) is a different std::io::ErrorKind from run to run: only Interrupted is retried
    kinds = ["BrokenPipe", "WouldBlock", "TimedOut", "UnexpectedEof", "WriteZero", "InvalidData", "ConnectionReset"]
    for r in runs:
        if r["cfg"]["entry"] in ("encode_read", "enc_read_n") and r["run"] % 2 == 0:
            r["cfg"]["around"] = "fe"
        r["cfg"]["hard_b"] = kinds[r["run"] % len(kinds)] if -3 in r["cfg"]["script"] else rng.choice(kinds)
    trace = core.drive("readn", runs, work, "readn")
    tv = tlc.validate_trace("ReadNTrace", "ReadNTrace.cfg", trace, os.path.join(work, "tv"), timeout=3000)
    res.add_tv(tv, {r["run"]: r for r in runs}, "readn", "every enumerated configuration + random", crash_props=("C17",))
    nontrivial = sum(1 for r in runs if any(x < 0 for x in r["cfg"]["script"]) and any(x > 0 for x in r["cfg"]["script"]))
    res.data["witness"]["C17"] = {
        "count": nontrivial,
        "rule": "distinct executed configurations (entry point, script, count, attempts, arena state) whose script mixes "
                "deliveries with EINTR / hard errors; %d enumerated (every configuration ReadNMC checked, on ByteArena::read_n "
                "with rotating arena fill states and on one of Encoder/Decoder read_n, encode_read, decode_read) + %d random "
                "with larger counts" % (n_enum, rid - n_enum)}
    res.data["samples"]["C17"] = [runs[1000]["cfg"], runs[-1]["cfg"]]
    os.remove(trace)


def replay(rep, work):
    trace = core.drive("readn", [rep["run"]], work, "replay")
    tv = tlc.validate_trace("ReadNTrace", "ReadNTrace.cfg", trace, os.path.join(work, "tv"))
    return tv["viol"] + core.crash_viols(("C17",))
