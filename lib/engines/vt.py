"""Engine `vt`: VouchedTime (C14).

Design: Apalache checks over the FULL range (local 0..PrimitiveDateTime::MAX ms, base 0..2^64-1) that the
transcribed window test equals the property (ImplLemma), that the limb predicate used for trace validation
equals the property (LimbLemma), and that the pre-fix wrapping formula does not (WrapLemma, finding F4);
TLC checks the same operators exhaustively on a scaled-down copy.  Conformance: boundary-biased triples are
executed on the real VouchedTime::new / check / now / get_local_time; TLC validates every verdict.
"""
import json
import os
import random
import re
import subprocess
import time

from .. import core, tlc

MAXLOCAL = 253402300799999
MINLOCAL = -62135596800000          # 0001-01-01
T64 = 2 ** 64


def _apalache(inv, work, expect_error=False):
    out = os.path.join(work, "apa_" + inv)
    t0 = time.time()
    p = subprocess.run(["timeout", "600", "apalache-mc", "check", "--length=0", "--inv=" + inv, "--out-dir=" + out,
                        os.path.join(tlc.SPECS, "VouchedTimeApa.tla")], cwd=work, stdout=subprocess.PIPE,
                       stderr=subprocess.STDOUT, text=True)
    txt = p.stdout
    if p.returncode == 124:
        raise core.ToolError("apalache timed out on " + inv)
    ok = "The outcome is: NoError" in txt
    err = "The outcome is: Error" in txt
    if not ok and not err:
        raise core.ToolError("apalache failed on %s:\n%s" % (inv, txt[-2000:]))
    if ok == expect_error:
        raise core.ToolError("apalache: %s %s (specification error)" % (inv, "unexpectedly holds" if ok else "is violated"))
    return round(time.time() - t0, 1)


def _scaled_mc(res, work):
    """TLC on a scaled-down copy of the same operators (constants substituted textually)."""
    src = open(os.path.join(tlc.SPECS, "VouchedTime.tla")).read()
    small = {"BACKWARD": 12, "FORWARD": 5, "MAXLOCAL": 300, "TWO64": 4096, "LB": 16}
    for k, v in small.items():
        if re.search(r"^%s == " % k, src, flags=re.M):
            src = re.sub(r"^%s == .*$" % k, "%s == %d" % (k, v), src, flags=re.M)
        else:
            src = src.replace("EXTENDS Integers", "EXTENDS Integers\n%s == %d" % (k, v), 1)
    src = src.replace("MODULE VouchedTime", "MODULE VouchedTimeSmall").replace("EXTENDS Integers", "EXTENDS Integers, TLC", 1)
    src = src.replace("=============================================================================",
                      "VARIABLES local, base\nInit == local \\in 0..MAXLOCAL /\\ base \\in 0..(TWO64 - 1)\n"
                      "Next == UNCHANGED <<local, base>>\nSpec == Init /\\ [][Next]_<<local, base>>\n"
                      "LimbLemma == SpecAcceptLimbs(Limbs(local), Limbs(base)) <=> SpecAccept(local, base)\n"
                      "ImplLemma == ImplAccept(local, base) <=> SpecAccept(local, base)\n"
                      "=============================================================================")
    # (three limbs of base 16 cover 0..4095 = the scaled 2^64; window constants stay below the limb base)
    d = os.path.join(work, "small")
    os.makedirs(d, exist_ok=True)
    open(os.path.join(d, "VouchedTimeSmall.tla"), "w").write(src)
    open(os.path.join(d, "VouchedTimeSmall.cfg"), "w").write("SPECIFICATION Spec\nINVARIANTS LimbLemma ImplLemma\nCHECK_DEADLOCK FALSE\n")
    p = subprocess.run(["timeout", "600", "tlc", "-workers", "8", "-metadir", os.path.join(d, "md"), "-cleanup",
                        "-noGenerateSpecTE", "-config", "VouchedTimeSmall.cfg", "VouchedTimeSmall.tla"], cwd=d,
                       stdout=subprocess.PIPE, stderr=subprocess.STDOUT, text=True,
                       env=dict(os.environ, JAVA_TOOL_OPTIONS="-Xmx4g"))
    m = re.search(r"(\d+) states generated, (\d+) distinct states found", p.stdout)
    if "No error has been found" not in p.stdout or not m:
        raise core.ToolError("scaled VouchedTime check failed:\n" + p.stdout[-2000:])
    res.data["mc"].append({"name": "VouchedTime operators on a scaled copy (4096 bases x 301 local times, limb base 16, window -12..+5): "
                           "LimbLemma, ImplLemma", "generated": int(m.group(1)), "distinct": int(m.group(2)), "depth": 1,
                           "wall_s": 0, "constants": str(small)})


def run_vt(res, work, tier, seed):
    os.makedirs(work, exist_ok=True)
    t1 = _apalache("LimbLemma", work)
    t2 = _apalache("ImplLemma", work)
    t3 = _apalache("WrapLemma", work, expect_error=True)
    res.data["notes"].append("Apalache (full range local 0..253402300799999 ms x base 0..2^64-1): LimbLemma holds (%.1fs), ImplLemma "
                             "holds (%.1fs), WrapLemma (pre-fix wrapping formula, finding F4) is violated as expected (%.1fs)" % (t1, t2, t3))
    _scaled_mc(res, work)
    rng = random.Random(seed * 7919 + 14)
    runs = []
    rid = 0

    def add(local_ms, sub, base, vk="ok"):
        nonlocal rid
        if not (MINLOCAL <= local_ms <= MAXLOCAL) or not (0 <= base < T64):
            return
        if local_ms == MAXLOCAL and sub > 999999:
            return
        rid += 1
        runs.append({"run": rid, "cfg": {"src": "new", "local_ms": local_ms, "sub_ns": sub, "base": base, "vk": vk}, "ops": []})

    anchors = [0, 1, 2989, 2990, 2991, 59899, 59900, 59901, 1713027659000, MAXLOCAL - 3000, MAXLOCAL, MAXLOCAL + 59900,
               2 ** 63 - 1, 2 ** 63, T64 - 60000, T64 - 2991, T64 - 2990, T64 - 2989, T64 - 101, T64 - 1]
    deltas = [-59902, -59901, -59900, -59899, -1, 0, 1, 2989, 2990, 2991, 2992]
    for b in anchors:
        for d in deltas:
            for sub in (0, 1, 999999):
                add(b + d, sub, b)
        for loc in (0, 1, 100, 2989, 2990, 2991, 59900, MAXLOCAL):       # wrap region and far-apart values
            add(loc, 0, b)
            add(loc, 500000, b)
    for loc in (-1, -2, -59900, MINLOCAL):                                     # before the epoch (also by less than 1 ms)
        for sub in (0, 1, 500000, 999999):
            for b in (0, 1, 59900):
                add(loc, sub, b)
    for vk in ("value", "params", "bits"):
        for b in (0, 1713027659000, T64 - 1):
            for d in (-59900, 0, 2990, 2991):
                add(b + d, 0, b, vk)
    n = 3000 if tier == "quick" else 300000
    for _ in range(n):
        b = rng.choice(anchors) if rng.random() < 0.5 else rng.randrange(0, MAXLOCAL + 100000)
        edge = rng.choice([-59900, 2990, 0])
        d = edge + rng.randrange(-3, 4)
        add(b + d, rng.choice([0, 0, 1, 999999, rng.randrange(10 ** 6)]), b, "ok" if rng.random() < 0.9 else rng.choice(["value", "params", "bits"]))
    for d in deltas + [-100000, 100000]:
        for vk in ("ok", "ok", "value"):
            rid += 1
            runs.append({"run": rid, "cfg": {"src": "now", "delta": -d, "vk": vk}, "ops": []})
    trace = core.drive("vt", runs, work, "vt")
    tv = tlc.validate_trace("VtTrace", "VtTrace.cfg", trace, os.path.join(work, "tv"), timeout=3000)
    res.add_tv(tv, {r["run"]: r for r in runs}, "vt", "boundary-biased triples", crash_props=("C14",))
    def near_edge(c):
        if c.get("src") != "new":
            return True
        d = c["local_ms"] - c["base"]
        return abs(d + 59900) <= 3 or abs(d - 2990) <= 3 or c["local_ms"] < 0 or c["base"] >= T64 - 70000
    res.data["witness"]["C14"] = {
        "count": len({json.dumps(r["cfg"], sort_keys=True) for r in runs if near_edge(r["cfg"])}),
        "rule": "distinct triples within 3 ms of a window edge, before the epoch, or in the wrap region (of %d executed); " % len(runs)
                + "(local time, base time, voucher kind) triples executed on the real VouchedTime::new/check/now: both "
                "window edges +-2 at 20 base anchors (0, 59900, 2024, calendar max, 2^63, 2^64-k) x sub-millisecond parts, "
                "the wrap region, local times before the epoch (also by < 1 ms), wrong vouchers, plus random triples "
                "within +-3 of an edge"}
    res.data["samples"]["C14"] = [runs[10]["cfg"], runs[-1]["cfg"]]
    os.remove(trace)


def replay(rep, work):
    trace = core.drive("vt", [rep["run"]], work, "replay")
    tv = tlc.validate_trace("VtTrace", "VtTrace.cfg", trace, os.path.join(work, "tv"))
    return tv["viol"] + core.crash_viols(("C14",))
