"""Engine `deque`: SlidingDeque (C15) and SortedDeque (C16).

spec -> impl : every edge of the I-spec's reachable graph (DequeMC / SortedMC) is executed
               on the real containers (Vec, SmallVec<[_;2]>, SmallVec<[_;4]>);
impl -> spec : those executions plus seeded random ones are validated event by event by
               TLC against the A-specs (DequeTrace / SortedTrace).
"""
import hashlib
import json
import os
import random

from .. import core, tlc, graph_cover, apalache

PROPS = ["C15", "C16"]
KINDS = ["vec", "sv2", "sv4"]


def _cfg(path, text):
    with open(path, "w") as f:
        f.write(text)
    return path


# ------------------------------------------------------------------ C15
def _deque_mc(res, work, tier):
    maxlen, maxadv = (6, 8) if tier == "quick" else (9, 12)
    consts = "Vals = {1, 2}\n  MaxLen = %d\n  MaxAdv = %d\n" % (maxlen, maxadv)
    cfg = _cfg(os.path.join(work, "DequeMC.cfg"),
               "SPECIFICATION Spec\nCONSTANTS\n  %s  BugF2 = FALSE\n"
               "INVARIANTS TypeOK Refines Rep Waste\nCHECK_DEADLOCK FALSE\n" % consts)
    dot = os.path.join(work, "deque_graph")
    r = tlc.run_tlc("DequeMC", cfg, os.path.join(work, "mc"), workers=8, timeout=900, dump_dot=dot)
    if r["violated"]:
        raise core.ToolError("design check DequeMC violated %s (specification error):\n%s"
                             % (r["violated"], r["out"][-3000:]))
    res.add_mc("DequeMC I-spec refines Deque A-spec", r, consts.replace("\n", ";"))
    # sharpness: the pre-fix transcription must be rejected by the same invariants
    cfgb = _cfg(os.path.join(work, "DequeMC_bug.cfg"),
                "SPECIFICATION Spec\nCONSTANTS\n  %s  BugF2 = TRUE\n"
                "INVARIANTS TypeOK Refines Rep Waste\nCHECK_DEADLOCK FALSE\n" % consts)
    rb = tlc.run_tlc("DequeMC", cfgb, os.path.join(work, "mcb"), workers=4, timeout=300)
    if rb["violated"] not in ("Rep", "Waste"):
        raise core.ToolError("DequeMC with BugF2=TRUE should violate Rep/Waste, got %r" % rb["violated"])
    res.data["notes"].append("DequeMC with BugF2=TRUE (pre-fix pop_back) violates %s as expected "
                             "(vacuity guard for the waste-bound invariants)" % rb["violated"])
    g = graph_cover.parse_dot(dot + ".dot")
    os.remove(dot + ".dot")
    paths = graph_cover.edge_cover(g, max_run=200)
    per_ev = {}
    for (_, _, lab) in g.edges:
        ev = core.label_event(lab)["ev"]
        per_ev[ev] = per_ev.get(ev, 0) + 1
    expected = {"push_back", "pop_front", "pop_back", "advance", "clear", "slide", "write",
                "write_front", "write_back"}
    zero = sorted(expected - set(per_ev))
    res.data["zero_coverage"] += zero
    res.data["edge_cover"].append({"graph": "DequeMC", "edges": len(g.edges), "paths": len(paths),
                                   "ops": sum(len(p) for p in paths), "edges_per_op": per_ev,
                                   "replayed_on": KINDS})
    runs = [[core.label_event(g.edges[i][2]) for i in p] for p in paths]
    flip = 0
    for ops in runs:
        for op in ops:
            if op["ev"] == "advance" and op["n"] == maxadv:
                flip += 1
                if flip % 2 == 0:
                    op["n"], op["max"] = 10 ** 9, True
    return runs


def _deque_random(rng, n_runs, n_ops):
    runs = []
    for _ in range(n_runs):
        ops = []
        length = 0
        cfg = {}
        if rng.random() < 0.3:
            init = [rng.randrange(256) for _ in range(rng.randrange(0, 12))]
            cfg = {"from": True, "init": init}
            length = len(init)
        mode = rng.choice(["grow", "fifo", "mixed", "mixed"])
        for _ in range(n_ops):
            x = rng.random()
            if mode == "grow":
                pp = 0.6
            elif mode == "fifo":
                pp = 0.45
            else:
                pp = 0.35
            if x < pp:
                ops.append({"ev": "push_back", "v": rng.randrange(256)})
                length += 1
            elif x < pp + 0.15:
                ops.append({"ev": "pop_front"})
                length = max(0, length - 1)
            elif x < pp + 0.27:
                ops.append({"ev": "pop_back"})
                length = max(0, length - 1)
            elif x < pp + 0.40:
                n = rng.choice([0, 1, 1, 2, 3, length // 2, length, length + 1, length + 5, 10 ** 9])
                op = {"ev": "advance", "n": n}
                if n == 10 ** 9:
                    op["max"] = True              # usize::MAX on the real deque
                ops.append(op)
                length = max(0, length - n)
            elif x < pp + 0.42:
                ops.append({"ev": "clear"})
                length = 0
            elif x < pp + 0.45:
                ops.append({"ev": "slide"})
            elif x < pp + 0.55:
                ops.append({"ev": "write", "i": rng.randrange(0, length + 2), "v": rng.randrange(256)})
            elif x < pp + 0.60:
                ops.append({"ev": "write_front", "v": rng.randrange(256)})
            else:
                ops.append({"ev": "write_back", "v": rng.randrange(256)})
        runs.append((cfg, ops))
    return runs


def _scan_deque_trace(trace):
    """Coverage statistics only (no oracle): distinct runs with a non-trivial slide."""
    nontrivial = set()
    cur_ops = None
    hit = False
    prev_consumed = 0
    spilled = 0

    def close():
        if cur_ops is not None and hit:
            nontrivial.add(hashlib.sha1(json.dumps(cur_ops).encode()).hexdigest())

    with open(trace) as f:
        for line in f:
            e = json.loads(line)
            if e["ev"] == "reset":
                close()
                cur_ops = [e.get("kind")]
                hit = False
                prev_consumed = 0
                continue
            cur_ops.append([e["ev"], e.get("v"), e.get("n"), e.get("i")])
            if prev_consumed > 0 and e["consumed"] == 0 and e["len"] > 0:
                hit = True
            prev_consumed = e["consumed"]
    close()
    return len(nontrivial)


def run_c15(res, work, tier, seed):
    os.makedirs(work, exist_ok=True)
    t1 = apalache.check("DequeInd", "IndInv", work, init="Init", length=0)
    t2 = apalache.check("DequeInd", "IndInv", work, init="IndInit", length=1)
    t3 = apalache.check("DequeInd", "IndInv", work, init="IndInit", next_="NextBug", length=1, expect_error=True)
    res.data["notes"].append("Apalache (unbounded lengths and advance counts): the waste bound 2*consumed <= container length is an "
                             "inductive invariant of the transcribed operations (base %.1fs, step %.1fs); with the pre-fix pop_back "
                             "the induction step fails as expected (%.1fs)" % (t1, t2, t3))
    det = _deque_mc(res, work, tier)
    rng = random.Random(seed * 7919 + 15)
    n_runs, n_ops = (40, 200) if tier == "quick" else (300, 2000)
    rnd = _deque_random(rng, n_runs, n_ops)
    runs = []
    rid = 0
    for kind in KINDS:
        for ops in det:
            rid += 1
            runs.append({"run": rid, "cfg": {"kind": kind}, "ops": ops})
    n_det = rid
    for kind in KINDS:
        for cfg, ops in rnd:
            rid += 1
            runs.append({"run": rid, "cfg": dict(cfg, kind=kind), "ops": ops})
    trace = core.drive("deque", runs, work, "deque")
    tv = tlc.validate_trace("DequeTrace", "DequeTrace.cfg", trace, os.path.join(work, "tv"))
    by_id = {r["run"]: r for r in runs}
    res.add_tv(tv, by_id, "deque", "edge-cover+random", crash_props=("C15",))
    res.data["witness"]["C15"] = {
        "count": _scan_deque_trace(trace),
        "rule": "distinct runs (kind + operation sequence) of the real SlidingDeque in which the "
                "consumed prefix was slid away while elements remained (consumed>0 -> 0, len>0); "
                "runs = edge-cover paths of the DequeMC graph on 3 containers (%d) + seeded random "
                "runs (%d)" % (n_det, rid - n_det)}
    res.data["samples"]["C15"] = [
        {"run": runs[0]["run"], "cfg": runs[0]["cfg"], "ops": runs[0]["ops"][:25]},
        {"run": runs[-1]["run"], "cfg": runs[-1]["cfg"], "ops": runs[-1]["ops"][:25]}]
    os.remove(trace)


# ------------------------------------------------------------------ C16
SORTED_CFGS = [("kv", "vec"), ("kv", "sv"), ("item", "vec"), ("item", "sv")]


def _sorted_mc(res, work, tier, mode):
    keys = 6 if tier == "quick" else 8
    consts = "Keys = {%s}\n  Mode = \"%s\"\n" % (",".join(str(i) for i in range(1, keys + 1)), mode)
    cfg = _cfg(os.path.join(work, "SortedMC_%s.cfg" % mode),
               "SPECIFICATION Spec\nCONSTANTS\n  %s  BugF2 = FALSE\n"
               "INVARIANTS Refines Rep Waste\nCHECK_DEADLOCK FALSE\n" % consts)
    dot = os.path.join(work, "sorted_graph_" + mode)
    r = tlc.run_tlc("SortedMC", cfg, os.path.join(work, "mc"), workers=8, timeout=1200, dump_dot=dot)
    if r["violated"]:
        raise core.ToolError("design check SortedMC violated %s (specification error):\n%s"
                             % (r["violated"], r["out"][-3000:]))
    res.add_mc("SortedMC(%s) I-spec refines OrdMap A-spec" % mode, r, consts.replace("\n", ";"))
    if mode == "kv":
        cfgb = _cfg(os.path.join(work, "SortedMC_bug.cfg"),
                    "SPECIFICATION Spec\nCONSTANTS\n  %s  BugF2 = TRUE\n"
                    "INVARIANTS Refines Rep Waste\nCHECK_DEADLOCK FALSE\n" % consts)
        rb = tlc.run_tlc("SortedMC", cfgb, os.path.join(work, "mcb"), workers=4, timeout=300)
        if rb["violated"] not in ("Rep", "Waste"):
            raise core.ToolError("SortedMC with BugF2=TRUE should violate Rep/Waste, got %r" % rb["violated"])
        res.data["notes"].append("SortedMC with BugF2=TRUE violates %s (F2 is reachable through "
                                 "pop_last/remove), as expected" % rb["violated"])
    g = graph_cover.parse_dot(dot + ".dot")
    os.remove(dot + ".dot")
    paths = graph_cover.edge_cover(g, max_run=200)
    per_ev = {}
    for (_, _, lab) in g.edges:
        ev = core.label_event(lab)["ev"]
        per_ev[ev] = per_ev.get(ev, 0) + 1
    expected = {"push", "find", "remove", "pop_first", "pop_last", "clear"}
    res.data["zero_coverage"] += sorted(expected - set(per_ev))
    res.data["edge_cover"].append({"graph": "SortedMC(%s)" % mode, "edges": len(g.edges),
                                   "paths": len(paths), "ops": sum(len(p) for p in paths),
                                   "edges_per_op": per_ev})
    return [[core.label_event(g.edges[i][2]) for i in p] for p in paths]


def _sorted_random(rng, n_runs, n_ops):
    runs = []
    for _ in range(n_runs):
        live = []
        ops = []
        valof = lambda k: (k % 7) + 1
        profile = rng.choice(["fifo", "middle", "mixed"])
        for _ in range(n_ops):
            x = rng.random()
            last = live[-1] if live else 0
            if last >= 250:
                ops.append({"ev": "clear"})
                live = []
                continue
            if x < 0.38:
                k = last + rng.choice([1, 1, 1, 2, 3])
                ops.append({"ev": "push", "k": k, "v": valof(k)})
                live.append(k)
            elif x < 0.41:
                k = rng.randrange(0, last + 1)          # not increasing: must panic if non-empty
                ops.append({"ev": "push", "k": k, "v": valof(k)})
                if not live:
                    live.append(k)
            elif x < 0.44:
                ops.append({"ev": "push", "k": rng.randrange(0, 255), "v": 0})   # erased: no-op
            elif x < 0.56:
                k = rng.choice(live) if live and rng.random() < 0.6 else rng.randrange(0, last + 3)
                v = valof(k) if rng.random() < 0.9 else (valof(k) % 7) + 1
                ops.append({"ev": "find", "k": k, "v": v})
            elif x < 0.80:
                if live and rng.random() < 0.8:
                    if profile == "fifo":
                        k = live[0] if rng.random() < 0.7 else rng.choice(live)
                    elif profile == "middle":
                        k = live[len(live) // 2] if rng.random() < 0.6 else rng.choice(live)
                    else:
                        k = rng.choice(live)
                else:
                    k = rng.randrange(0, last + 3)
                ops.append({"ev": "remove", "k": k, "v": valof(k)})
                if k in live:
                    live.remove(k)
            elif x < 0.89:
                ops.append({"ev": "pop_first"})
                live = live[1:]
            elif x < 0.985:
                ops.append({"ev": "pop_last"})
                live = live[:-1]
            else:
                ops.append({"ev": "clear"})
                live = []
        runs.append(ops)
    return runs


def _scan_sorted_trace(trace):
    """Coverage statistics only: distinct runs where an end removal swept >= 1 tombstone."""
    nontrivial = set()
    cur = None
    hit = False
    prev_phys = 0

    def close():
        if cur is not None and hit:
            nontrivial.add(hashlib.sha1(json.dumps(cur).encode()).hexdigest())

    with open(trace) as f:
        for line in f:
            e = json.loads(line)
            if e["ev"] == "reset":
                close()
                cur = [e.get("kind"), e.get("mode")]
                hit = False
                prev_phys = 0
                continue
            cur.append([e["ev"], e.get("k"), e.get("v")])
            nphys = len(e["phys"])
            if e["ev"] in ("pop_first", "pop_last", "remove") and prev_phys - nphys >= 2:
                hit = True
            prev_phys = nphys
    close()
    return len(nontrivial)


def run_c16(res, work, tier, seed):
    os.makedirs(work, exist_ok=True)
    rng = random.Random(seed * 7919 + 16)
    n_runs, n_ops = (40, 200) if tier == "quick" else (300, 1500)
    rnd = _sorted_random(rng, n_runs, n_ops)
    det = {m: _sorted_mc(res, work, tier, m) for m in ("kv", "item")}
    runs = []
    rid = 0
    for mode, kind in SORTED_CFGS:
        for ops in det[mode]:
            rid += 1
            runs.append({"run": rid, "cfg": {"kind": kind, "mode": mode}, "ops": ops})
    n_det = rid
    for mode, kind in SORTED_CFGS:
        for ops in rnd:
            rid += 1
            runs.append({"run": rid, "cfg": {"kind": kind, "mode": mode}, "ops": ops})
    trace = core.drive("sorted", runs, work, "sorted")
    tv = tlc.validate_trace("SortedTrace", "SortedTrace.cfg", trace, os.path.join(work, "tv"))
    by_id = {r["run"]: dict(r, driver_engine="sorted") for r in runs}
    res.add_tv(tv, by_id, "sorted", "edge-cover+random", crash_props=("C16", "C15"))
    rule = ("distinct runs (container, item convention, operation sequence) of the real SortedDeque "
            "in which a pop_first/pop_last/remove physically swept at least one tombstone besides "
            "the removed item; runs = edge-cover paths of SortedMC(kv), SortedMC(item) on Vec and "
            "SmallVec (%d) + seeded random runs (%d)" % (n_det, rid - n_det))
    cnt = _scan_sorted_trace(trace)
    res.data["witness"]["C16"] = {"count": cnt, "rule": rule}
    res.data["witness"].setdefault("C15", {"count": cnt, "rule": rule})
    res.data["samples"]["C16"] = [
        {"run": runs[0]["run"], "cfg": runs[0]["cfg"], "ops": runs[0]["ops"][:25]},
        {"run": runs[-1]["run"], "cfg": runs[-1]["cfg"], "ops": runs[-1]["ops"][:25]}]
    os.remove(trace)


def replay(rep, work):
    """Re-execute one recorded run; returns the validator's violations."""
    run = rep["run"]
    driver = run.get("driver_engine") or rep.get("engine", "deque")
    trace = core.drive(driver, [run], work, "replay")
    module = "DequeTrace" if driver == "deque" else "SortedTrace"
    tv = tlc.validate_trace(module, module + ".cfg", trace, os.path.join(work, "tv"))
    return tv["viol"] + core.crash_viols(("C15", "C16"))
