"""Engine `tlv`: Rough TLV (C11, C12).

Design: TlvMC checks the transcribed MessageView accessors against the layout definition on every byte
string of a bounded header-shape domain, and Encode/SortStable/EncLen lemmas on all small pair lists.
Conformance: the same domains (and random strings, long lists, size-limit boundary cases) are executed
on the real MessageView / MessageWrapper; TLC validates every recorded result.
"""
import itertools
import os
import random

from .. import core, tlc

WORDS = [[0, 0, 0, 0], [1, 0, 0, 0], [2, 0, 0, 0], [3, 0, 0, 0], [4, 0, 0, 0], [8, 0, 0, 0], [12, 0, 0, 0],
         [0, 0, 1, 0], [0, 0, 0, 32], [255, 255, 255, 255]]
VALS = [[], [7], [1, 2, 3], [9, 9, 9, 9, 9]]
I32MAX = 2 ** 31 - 1


def limbs(n):
    return [n >> 20, n & 0xFFFFF]


def run_tlv(res, work, tier, seed):
    os.makedirs(work, exist_ok=True)
    mw, mp = (4, 3) if tier == "quick" else (5, 4)
    for side in ("view", "enc"):
        cfg = os.path.join(work, "TlvMC_%s.cfg" % side)
        consts = 'Side = "%s"\n  MaxWords = %d\n  MaxPairs = %d\n  Tags = {1,2,3}\n  BugF3 = FALSE\n' % (side, mw, mp + 1)
        with open(cfg, "w") as f:
            f.write("SPECIFICATION Spec\nCONSTANTS\n  %sINVARIANTS ViewOK EncOK\nCHECK_DEADLOCK FALSE\n" % consts)
        r = tlc.run_tlc("TlvMC", cfg, os.path.join(work, "mc"), workers=8, timeout=3000)
        if r["violated"]:
            raise core.ToolError("design check TlvMC(%s) violated %s (specification error):\n%s" % (side, r["violated"], r["out"][-3000:]))
        res.add_mc("TlvMC %s: %s" % (side, "transcribed accessors vs layout on all header shapes" if side == "view"
                                      else "Encode/SortStable/EncLen lemmas on all small pair lists"), r, consts.replace("\n", ";"))
    cfgb = os.path.join(work, "TlvMC_bug.cfg")
    with open(cfgb, "w") as f:
        f.write('SPECIFICATION Spec\nCONSTANTS\n  Side = "view"\n  MaxWords = 2\n  MaxPairs = 1\n  Tags = {1}\n  BugF3 = TRUE\n'
                'INVARIANTS ViewOK\nCHECK_DEADLOCK FALSE\n')
    rb = tlc.run_tlc("TlvMC", cfgb, os.path.join(work, "mcb"), workers=2, timeout=300)
    if rb["violated"] != "ViewOK":
        raise core.ToolError("TlvMC with BugF3=TRUE should violate ViewOK")
    res.data["notes"].append("TlvMC with BugF3=TRUE (pre-fix get_value) violates ViewOK as expected")

    rng = random.Random(seed * 7919 + 11)
    runs = []
    rid = 0
    probe = [0, 1, 2, 3, 5]
    # C12: the header-shape domain TLC enumerated (+ one more word value), every trailing length
    for n in range(0, mw + 1):
        for ws in itertools.product(WORDS, repeat=n):
            b = [x for w in ws for x in w]
            for k in range(4):
                rid += 1
                runs.append({"run": rid, "cfg": {"kind": "view", "bytes": b + [9] * k, "probe": probe}, "ops": []})
    n_view_enum = rid
    for _ in range(3000 if tier == "quick" else 60000):
        rid += 1
        n = rng.choice([0, 1, 2, 3, 4])
        b = [n, 0, 0, 0]
        for _ in range(max(n - 1, 0)):
            b += [rng.choice([0, 1, 2, 3, 4, 5, 8, 200]), 0, 0, rng.choice([0, 0, 0, 0, 1])]
        for _ in range(n):
            b += [rng.choice([1, 2, 3]), 0, rng.choice([0, 0, 1]), 0]
        b += [rng.randrange(256) for _ in range(rng.choice([0, 1, 2, 3, 4, 5, 8, 13]))]
        if rng.random() < 0.3:
            b = b[:rng.randrange(len(b) + 1)]
        if rng.random() < 0.2 and b:
            b[rng.randrange(len(b))] = rng.randrange(256)
        runs.append({"run": rid, "cfg": {"kind": "view", "bytes": b, "probe": probe}, "ops": []})
    # headers of 3..6 pairs with every combination of a few offsets (decreasing ones included), sorted tags, and payloads
    # of exactly 0 / 4 / 8 / 12 bytes (a buffer cut right at the end of the header is the interesting corner)
    def w32(x):
        return [x & 255, (x >> 8) & 255, (x >> 16) & 255, (x >> 24) & 255]
    for n in (3, 4, 5, 6):
        combos = list(itertools.product([0, 4, 8], repeat=n - 1))
        if len(combos) > 90:
            combos = rng.sample(combos, 90)
        for offs in combos:
            for pay in (0, 4, 8, 12):
                rid += 1
                b = w32(n) + [x for o in offs for x in w32(o)] + [x for t in range(1, n + 1) for x in w32(t)] + [7] * pay
                runs.append({"run": rid, "cfg": {"kind": "view", "bytes": b, "probe": probe + [n, n + 1]}, "ops": []})
    n_view = rid
    # C11: all small pair lists, three constructors, rotating sinks / Cow variants
    sinks = ["iovec", "hcobs", "dyn"]
    for n in range(0, mp + 1):
        for tags in itertools.product([1, 2, 3], repeat=n):
            for vals in itertools.product(range(len(VALS)), repeat=n):
                pairs = [[tags[i], [rng.choice(["b", "o"]), VALS[vals[i]]]] for i in range(n)]
                for ctor in ("new", "slice", "sorted"):
                    rid += 1
                    runs.append({"run": rid, "cfg": {"kind": "enc", "ctor": ctor, "sink": sinks[rid % 3], "nested": False,
                                                     "pairs": pairs, "probe": probe}, "ops": []})
    for _ in range(300 if tier == "quick" else 5000):
        rid += 1
        n = rng.randrange(0, 4)
        pairs = []
        for _ in range(n):
            inner = [[rng.choice([1, 2, 3, 70000]), ["b", rng.choice(VALS)]] for _ in range(rng.randrange(0, 4))]
            pairs.append([rng.choice([1, 2, 3, 2 ** 31 - 1]), ["m", inner]])
        runs.append({"run": rid, "cfg": {"kind": "enc", "ctor": rng.choice(["new", "slice", "sorted"]), "sink": rng.choice(sinks),
                                         "nested": True, "pairs": pairs, "probe": probe}, "ops": []})
    for _ in range(40 if tier == "quick" else 600):      # long lists with many ties (stability beyond small-sort thresholds)
        rid += 1
        n = rng.choice([21, 33, 48, 64, 100])
        pairs = [[rng.choice([1, 2, 3]), [rng.choice(["b", "o"]), [i % 256, i // 256]]] for i in range(n)]
        if rng.random() < 0.3:
            pairs.sort(key=lambda p: -p[0])
        runs.append({"run": rid, "cfg": {"kind": "enc", "ctor": rng.choice(["new", "slice"]), "sink": "iovec", "nested": False,
                                         "pairs": pairs, "probe": probe}, "ops": []})
    # wide tags: numeric order vs byte-wise (little-endian) order of the tag words
    WIDE = [1, 255, 256, 257, 65535, 65536, 0x1000000, 2 ** 31 - 1]
    wide_lists = [list(t) for n in (1, 2) for t in itertools.product(WIDE, repeat=n)]
    wide_lists += [[rng.choice(WIDE) for _ in range(rng.choice([3, 4, 5]))] for _ in range(60 if tier == "quick" else 2000)]
    for tags in wide_lists:
        for ctor in ("new", "slice", "sorted"):
            rid += 1
            pairs = [[t, ["b", [i + 1, t % 251]]] for i, t in enumerate(tags)]
            runs.append({"run": rid, "cfg": {"kind": "enc", "ctor": ctor, "sink": sinks[rid % 3], "nested": False,
                                             "pairs": pairs, "probe": probe}, "ops": []})
    n_enc = rid
    # C11 size limits: values that only report a length
    for n in range(1, 5):
        hdr = 4 + 4 * (n - 1) + 4 * n
        for delta in (-3, -2, -1, 0, 1, 2, 3):
            for ctor in ("new", "slice", "sorted"):
                small = [rng.choice([0, 1, 5, 1000]) for _ in range(n - 1)]
                last = I32MAX - hdr - sum(small) + delta
                lens = small + [last]
                rng.shuffle(lens)
                rid += 1
                runs.append({"run": rid, "cfg": {"kind": "limits", "ctor": ctor, "tags": list(range(1, n + 1)),
                                                 "lens": [limbs(x) for x in lens]}, "ops": []})
    for big in (I32MAX - 1, I32MAX, I32MAX + 1, 2 ** 32, 2 ** 40):
        for ctor in ("new", "slice", "sorted"):
            rid += 1
            runs.append({"run": rid, "cfg": {"kind": "limits", "ctor": ctor, "tags": [1, 2], "lens": [limbs(3), limbs(big)]}, "ops": []})
    rid += 1
    runs.append({"run": rid, "cfg": {"kind": "limits", "ctor": "sorted", "tags": [2, 1], "lens": [limbs(3), limbs(4)]}, "ops": []})
    for _ in range(4):
        rid += 1
        runs.append({"run": rid, "cfg": {"kind": "limits", "ctor": "new", "tags": [1, 2, 3, 4],
                                         "lens": [limbs(690262592)] * rng.choice([3, 4])}, "ops": []})
    trace = core.drive("tlv", runs, work, "tlv")
    tv = tlc.validate_trace("TlvTrace", "TlvTrace.cfg", trace, os.path.join(work, "tv"), timeout=3000)
    res.add_tv(tv, {r["run"]: r for r in runs}, "tlv", "enumerated domains + random", crash_props=("C12", "C11"))
    res.data["witness"]["C12"] = {
        "count": n_view,
        "rule": "distinct byte strings given to the real MessageView::new with every accessor exercised: %d from the header-shape "
                "domain (all strings of <= %d words over 10 word values incl. 65536, 2^29, 2^32-1, with 0..3 trailing bytes) + %d "
                "random / truncated / corrupted strings" % (n_view_enum, mw, n_view - n_view_enum)}
    res.data["witness"]["C11"] = {
        "count": rid - n_view,
        "rule": "distinct (pair list, constructor, sink) cases on the real MessageWrapper: all lists of <= %d pairs over 3 tags x 4 "
                "value lengths x 3 constructors (sinks OwningIovec / dyn ZeroCopySink / HCOBS Encoder->Decoder rotating), nested "
                "messages, long lists with ties, and %d size-limit boundary cases" % (mp, rid - n_enc)}
    res.data["samples"]["C12"] = [runs[5000]["cfg"], runs[n_view - 1]["cfg"]]
    res.data["samples"]["C11"] = [runs[n_view + 500]["cfg"], runs[-1]["cfg"]]
    os.remove(trace)


def replay(rep, work):
    trace = core.drive("tlv", [rep["run"]], work, "replay")
    tv = tlc.validate_trace("TlvTrace", "TlvTrace.cfg", trace, os.path.join(work, "tv"))
    return tv["viol"] + core.crash_viols(("C12", "C11"))
