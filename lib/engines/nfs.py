"""Engine `nfs`: vouched_time::nfs_voucher (C19).

Design: NfsVoucher.tla (A-level action properties + transcription of update_base_time / scan / add_trusted_path)
model-checked on 2 devices x 3 files x 4 ticks.  Conformance: random call sequences on files of two real devices
(the work directory and tmpfs /dev/shm), one process per trace because the module state is process-global; TLC
validates every call against the properties using only values the harness observed itself.
"""
import json
import os
import random
import subprocess

from .. import core, tlc


def _gen(rng, n_ops):
    ops = []
    files = {}          # id -> dev
    nxt = 1
    links = {}
    for d in ("a", "b", "a"):
        ops.append({"ev": "create", "f": nxt, "d": d})
        files[nxt] = d
        nxt += 1
    ops.append({"ev": "sleep", "ms": 3})
    trusted = set()
    style = rng.choice(["trust_a", "trust_b", "late_trust", "link"])
    for i in range(n_ops):
        x = rng.random()
        ids = list(files) + list(links)
        f = rng.choice(ids)
        if x < 0.08 and nxt < 9:
            d = rng.choice(["a", "b"])
            ops.append({"ev": "create", "f": nxt, "d": d})
            files[nxt] = d
            nxt += 1
        elif x < 0.16:
            ops.append({"ev": "sleep", "ms": rng.choice([2, 3, 5, 12])})
        elif x < 0.24:
            ops.append({"ev": rng.choice(["touch", "oldmtime", "futuremtime"]), "f": rng.choice(list(files))})
        elif x < 0.30 and (style != "late_trust" or i > n_ops // 2):
            cand = [q for q in ids if (files.get(q) or "a") == ("b" if style == "trust_b" else "a")] or ids
            ops.append({"ev": "add", "f": rng.choice(cand)})
        elif x < 0.34 and style == "link" and nxt < 9:
            t = rng.choice(list(files))
            ops.append({"ev": "link", "f": nxt, "target": t})
            links[nxt] = t
            nxt += 1
        elif x < 0.38 and links:
            lk = rng.choice(list(links))
            t = rng.choice(list(files))
            ops.append({"ev": "repoint", "f": lk, "target": t})
            links[lk] = t
        elif x < 0.62:
            ops.append({"ev": "observe", "f": f})
        elif x < 0.68:
            ops.append({"ev": "maybe_observe", "f": f})
        elif x < 0.76:
            ops.append({"ev": "scan"})
        elif x < 0.92:
            ops.append({"ev": "get", "off": rng.choice([0, -100000, 1500, 2500, 3600000, 60000])})
        else:
            ops.append({"ev": "get_unlocked", "off": rng.choice([0, 0, 2000, 59000, 61000, 120000, 86400000, -100000])})
            ops.append({"ev": "should_refresh", "off": rng.choice([0, -100, 1500, 1990, 1995, 2500, 60000, -60000]),
                        "leeway": rng.choice([-1, -1, 0, 1, 1000, 2000, 100000])})
    return ops


def scripted(tier="quick"):
    # a trusted symlink re-pointed to a file on the other device, then a forced refresh (seeded change C19-m1)
    s1 = [{"ev": "create", "f": 1, "d": "a"}, {"ev": "create", "f": 2, "d": "b"}, {"ev": "sleep", "ms": 3},
          {"ev": "link", "f": 3, "target": 1}, {"ev": "add", "f": 3}, {"ev": "sleep", "ms": 3}, {"ev": "touch", "f": 2},
          {"ev": "repoint", "f": 3, "target": 2}, {"ev": "get", "off": 3600000}, {"ev": "scan"}, {"ev": "get_unlocked"},
          {"ev": "observe", "f": 2}, {"ev": "observe", "f": 1}]
    # n1, old (rejected), n2, mid: the monotonic filter across both slots (seeded change C19-m2)
    s2 = [{"ev": "create", "f": 1, "d": "a"}, {"ev": "create", "f": 4, "d": "a"}, {"ev": "sleep", "ms": 4},
          {"ev": "create", "f": 2, "d": "a"}, {"ev": "add", "f": 2}, {"ev": "observe", "f": 1}, {"ev": "sleep", "ms": 4},
          {"ev": "create", "f": 3, "d": "a"}, {"ev": "sleep", "ms": 4}, {"ev": "touch", "f": 4}, {"ev": "sleep", "ms": 4},
          {"ev": "create", "f": 5, "d": "a"}, {"ev": "observe", "f": 5}, {"ev": "observe", "f": 3}, {"ev": "observe", "f": 4},
          {"ev": "observe", "f": 1}, {"ev": "get_unlocked"}]
    # a file whose modification time lies in the future: only the change-time is evidence
    s3 = [{"ev": "create", "f": 1, "d": "a"}, {"ev": "add", "f": 1}, {"ev": "sleep", "ms": 3}, {"ev": "create", "f": 2, "d": "a"},
          {"ev": "futuremtime", "f": 2}, {"ev": "observe", "f": 2}, {"ev": "get_unlocked"}, {"ev": "sleep", "ms": 3},
          {"ev": "get_unlocked", "off": 61000}, {"ev": "get_unlocked", "off": 86400000}, {"ev": "oldmtime", "f": 1},
          {"ev": "observe", "f": 1}, {"ev": "get", "off": 0}]
    # concurrent callers forcing refreshes: the base time never decreases for any of them
    s4 = [{"ev": "create", "f": 1, "d": "a"}, {"ev": "add", "f": 1}, {"ev": "observe", "f": 1},
          {"ev": "mt", "threads": 40, "iters": 10 ** 7, "ms": 4000 if tier == "quick" else 30000}, {"ev": "get_unlocked"}, {"ev": "observe", "f": 1}]
    return [s1, s2, s3, s4]


def run_nfs(res, work, tier, seed):
    os.makedirs(work, exist_ok=True)
    cfg = os.path.join(work, "NfsVoucher.cfg")
    consts = 'Devs = {"a", "b"}\n  Files = {"f1", "f2", "f3"}\n  MaxClock = %d\n' % (3 if tier == "quick" else 4)
    with open(cfg, "w") as f:
        f.write("SPECIFICATION Spec\nCONSTANTS\n  %s  BugDev = FALSE\nPROPERTIES Monotone OnlyTrustedEvidence UntrustedIgnored "
                "ReturnsVouched\nCHECK_DEADLOCK FALSE\n" % consts)
    r = tlc.run_tlc("NfsVoucher", cfg, os.path.join(work, "mc"), workers=8, timeout=3000)
    if r["violated"]:
        raise core.ToolError("design check NfsVoucher violated %s:\n%s" % (r["violated"], r["out"][-2000:]))
    res.add_mc("NfsVoucher: transcribed update_base_time / scan / add_trusted_path satisfy Monotone, OnlyTrustedEvidence, "
               "UntrustedIgnored, ReturnsVouched", r, consts.replace("\n", ";"))
    cfgb = os.path.join(work, "NfsVoucher_bug.cfg")
    with open(cfgb, "w") as f:
        f.write('SPECIFICATION Spec\nCONSTANTS\n  Devs = {"a", "b"}\n  Files = {"f1", "f2"}\n  MaxClock = 2\n  BugDev = TRUE\n'
                "PROPERTIES OnlyTrustedEvidence\nCHECK_DEADLOCK FALSE\n")
    rb = tlc.run_tlc("NfsVoucher", cfgb, os.path.join(work, "mcb"), workers=4, timeout=600)
    if rb["violated"] != "OnlyTrustedEvidence":
        raise core.ToolError("NfsVoucher with BugDev=TRUE should violate OnlyTrustedEvidence")
    res.data["notes"].append("NfsVoucher with BugDev=TRUE (device check skipped when blocking) violates OnlyTrustedEvidence as expected")
    rng = random.Random(seed * 7919 + 19)
    n_runs, n_ops = (40, 50) if tier == "quick" else (400, 80)
    runs = []
    for i, ops in enumerate(scripted(tier)):
        runs.append({"run": i + 1, "cfg": {"dir_a": work}, "ops": ops})
    for i in range(n_runs):
        runs.append({"run": len(runs) + 1, "cfg": {"dir_a": work}, "ops": _gen(rng, n_ops)})
    # one process per run (process-global state); traces concatenated for one TLC validation
    trace = os.path.join(work, "nfs.trace.ndjson")
    one_dev = False
    with open(trace, "w") as out:
        for rr in runs:
            t = core.drive("nfs", [rr], work, "nfs_one")
            with open(t) as f:
                for line in f:
                    out.write(line)
                    if '"two_devices":0' in line:
                        one_dev = True
            os.remove(t)
    if one_dev:
        res.data["notes"].append("only one writable device in this sandbox: untrusted-device actions degrade to the same device")
    tv = tlc.validate_trace("NfsTrace", "NfsTrace.cfg", trace, os.path.join(work, "tv"), timeout=3000)
    res.add_tv(tv, {r["run"]: r for r in runs}, "nfs", "random call sequences on two real devices", crash_props=("C19",))
    nontrivial = 0
    with open(trace) as f:
        changes, untrusted, prev, tr = 0, False, 0, set()
        for line in f:
            e = json.loads(line)
            if e["ev"] == "reset":
                changes, untrusted, prev, tr = 0, False, 0, set()
            elif e["ev"] == "end":
                nontrivial += 1 if (changes >= 2 and untrusted) else 0
            elif e["ev"] == "mt_obs":
                continue
            else:
                if e.get("base", 0) != prev:
                    changes += 1
                    prev = e["base"]
                fr = [x for x in e.get("files", []) if x["f"] == e.get("f")]
                if e["ev"] == "add" and e["err"] == "" and fr:
                    tr.add(fr[0]["dev"])
                if e["ev"] == "observe" and fr and fr[0]["dev"] not in tr:
                    untrusted = True
    res.data["witness"]["C19"] = {
        "count": nontrivial,
        "rule": "call sequences (of %d) in which the base time changed at least twice and a file on a not (yet) trusted device "
                "was observed; " % len(runs) + "call sequences of the real nfs_voucher module, each in its own process, over files on two real devices "
                "(ext work directory and tmpfs /dev/shm) created milliseconds apart, with touches, old modification times, symlinks "
                "re-pointed across devices, trust established early / late / on either device, explicit `now` values on both sides of "
                "the refresh threshold; %d random sequences of %d calls + 4 scripted ones (one with 6 concurrent callers forcing refreshes)" % (n_runs, n_ops)}
    res.data["samples"]["C19"] = [runs[0]["ops"], runs[-1]["ops"][:15]]
    os.remove(trace)


def replay(rep, work):
    trace = core.drive("nfs", [dict(rep["run"], cfg={"dir_a": work})], work, "replay")
    tv = tlc.validate_trace("NfsTrace", "NfsTrace.cfg", trace, os.path.join(work, "tv"))
    return tv["viol"] + core.crash_viols(("C19",))
