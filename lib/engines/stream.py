"""Engine `stream`: StreamChunker (C08) and StreamReader (C06).

Design: StreamMC checks the transcribed pump / next_record_bytes against the A-spec (Tiles, Records)
for all streams up to a bound x block sizes x judge parameters.
Conformance: the same configuration space is enumerated and executed on the real code with scripted
readers (short reads, EINTR), plus seeded record-rich / truncated / corrupted / garbage streams with
larger block sizes and prepared arena states; TLC validates every recorded chunk / record.
"""
import hashlib
import itertools
import json
import os
import random

from .. import core, tlc

FE, FD = 254, 253
ALPHA = [FE, FD, 0, 1, 2, 97]
SCHEDS = [[], [1], [0, 1], [2, 0, 0, 1], [3, 1], [0, 0, 5]]


def _cfg(path, text):
    with open(path, "w") as f:
        f.write(text)
    return path


def _mc(res, work, tier):
    maxlen = 4 if tier == "quick" else 5
    plans = [("standard judge", maxlen, "{{}}", "{{}}"),
             ("judge family (skip / stop at chosen offsets)", 3) + (("{{}, {0}, {2}}", "{{}, {0}, {2}}") if tier == "quick"
                                                                    else ("{{}, {0}, {1}, {2}, {3}}", "{{}, {0}, {1}, {2}, {3}}"))]
    for what, ml, sk, sp in plans:
        consts = ("Alphabet = {254, 253, 0, 1, 2, 97}\n  MaxLen = %d\n  Blocks = {0,1,2,3,4}\n"
                  "  MaxSizes = {1000000, 0, 1}\n  SkipSets = %s\n  StopSets = %s\n" % (ml, sk, sp))
        cfg = _cfg(os.path.join(work, "StreamMC_%d.cfg" % ml),
                   "SPECIFICATION Spec\nCONSTANTS\n  %s  BugF1 = FALSE\nINVARIANTS ChunkerTiles ReaderExact StdAgrees\n"
                   "CHECK_DEADLOCK FALSE\n" % consts)
        r = tlc.run_tlc("StreamMC", cfg, os.path.join(work, "mc"), workers=8, timeout=3000)
        if r["violated"]:
            raise core.ToolError("design check StreamMC violated %s (specification error):\n%s"
                                 % (r["violated"], r["out"][-3000:]))
        res.add_mc("StreamMC (%s): transcribed pump/next_record_bytes vs Tiles/Records, all streams <= %d x blocks 0..4 "
                   "x judge parameters" % (what, ml), r, consts.replace("\n", ";"))
    consts = ("Alphabet = {254, 253, 0, 1, 2, 97}\n  MaxLen = 3\n  Blocks = {0,1,2,3,4}\n  MaxSizes = {1000000}\n"
              "  SkipSets = {{}}\n  StopSets = {{}}\n")
    cfgb = _cfg(os.path.join(work, "StreamMC_bug.cfg"),
                "SPECIFICATION Spec\nCONSTANTS\n  %s  BugF1 = TRUE\nINVARIANTS ChunkerTiles\nCHECK_DEADLOCK FALSE\n" % consts)
    rb = tlc.run_tlc("StreamMC", cfgb, os.path.join(work, "mcb"), workers=4, timeout=600)
    if rb["violated"] != "ChunkerTiles":
        raise core.ToolError("StreamMC with BugF1=TRUE should violate ChunkerTiles, got %r" % rb["violated"])
    res.data["notes"].append("StreamMC with BugF1=TRUE (io_block_size.max(1), pre-fix) violates ChunkerTiles as expected")


# ---- generator-side helpers (not oracles): build valid HCOBS records for record-rich streams
def _enc_simple(payload):
    """HCOBS encoding of a payload (generator only; small cases)."""
    out = []
    first = True
    i = 0
    n = len(payload)
    while True:
        lim = 252 if first else 64008
        hi = min(i + lim, n)
        k = -1
        for j in range(i, hi - 1):
            if payload[j] == FE and payload[j + 1] == FD:
                k = j
                break
        if k >= 0:
            size, nxt, last = k - i, k + 2, False
        elif hi - i == lim:
            size, nxt, last = lim, hi, False
        else:
            size, nxt, last = hi - i, hi, True
        out += [size] if first else [size % 253, size // 253]
        out += payload[i:i + size]
        first = False
        i = nxt
        if last:
            return out


def _payload(rng):
    n = rng.choice([0, 1, 2, 3, 5, 10, 40, 251, 252, 253, 300])
    p = [rng.choice([0, 1, 97, 98, 255, 252]) for _ in range(n)]
    if n >= 2 and rng.random() < 0.4:
        j = rng.randrange(n - 1)
        p[j], p[j + 1] = FE, FD
    if n >= 1 and rng.random() < 0.3:
        p[rng.randrange(n)] = rng.choice([FE, FD])
    return p


def _log(rng, nrec):
    s = []
    if rng.random() < 0.3:
        s += [FE, FD] * rng.randrange(1, 3)
    for _ in range(nrec):
        s += _enc_simple(_payload(rng))
        s += [FE, FD] * rng.choice([1, 1, 1, 2, 3])
    if rng.random() < 0.5:
        s = s[:-2]          # last record ends at end of stream
    return s


def _random_streams(rng, tier):
    out = []
    n = 150 if tier == "quick" else 2500
    for _ in range(n):
        kind = rng.choice(["log", "log", "trunc", "corrupt", "garbage", "sentinels", "frag"])
        if kind == "log":
            s = _log(rng, rng.randrange(1, 6))
        elif kind == "trunc":
            s = _log(rng, 3)
            s = s[:rng.randrange(len(s) + 1)]
        elif kind == "corrupt":
            s = _log(rng, rng.randrange(2, 5))
            for _ in range(rng.randrange(1, 4)):
                if s:
                    s[rng.randrange(len(s))] = rng.choice([0, 1, 2, 252, FD, FE, 255])
        elif kind == "garbage":
            s = [rng.choice([0, 1, 2, 3, 97, 252, FD, FE, 255]) for _ in range(rng.choice([1, 5, 20, 100, 600]))]
        elif kind == "sentinels":
            s = [FE, FD] * rng.randrange(1, 6) + ([FE] if rng.random() < 0.5 else []) + _log(rng, 1)
        else:
            s = []
            for _ in range(rng.randrange(2, 12)):
                s += rng.choice([[FE], [FD], [FE, FD], [FE, FE], [FD, FE], [1, 97], [2, 97, 98]])
        out.append(s)
    # "alias" segments between valid records: they decode only if one header check is skipped
    for low in (253, 254, 255):
        for high in (0, 1):
            sz = low + 253 * high
            out.append([5, 104, 101, 108, 108, 111, FE, FD] + [0, low, high] + [9] * sz + [FE, FD, 5, 119, 111, 114, 108, 100])
            out.append([1, 97, FE, FD] + [1, 7, low, high] + [9] * sz + [0, 0] + [FE, FD, 1, 98])
    out.append([1, 97, FE, FD] + [253] + [5] * 253 + [FE, FD, 1, 98])
    # crash points of a writer: truncation of one 3-record log at every byte
    base = _log(random.Random(12345), 3)
    for k in range(len(base) + 1):
        if tier != "quick" or k % 2 == 0 or k < 12:
            out.append(base[:k])
    return out


def run_stream(res, work, tier, seed):
    os.makedirs(work, exist_ok=True)
    _mc(res, work, tier)
    rng = random.Random(seed * 7919 + 8)
    runs = []
    rid = 0
    # (1) the configuration space TLC enumerated, executed on the real code
    maxlen_c = 5 if tier == "quick" else 6
    maxlen_r = 4 if tier == "quick" else 5
    n_enum = 0
    for n in range(0, maxlen_c + 1):
        for s in itertools.product(ALPHA, repeat=n):
            for block in (0, 1, 2, 3, 4):
                if n > 4 and tier == "quick" and block in (0, 4) and rng.random() < 0.5:
                    continue
                rid += 1
                cfgc = {"kind": "chunker", "stream": list(s), "block": block,
                        "sched": rng.choice(SCHEDS), "prep": rng.choice([-1, -1, 0, 1, 2, 3, 5])}
                if rng.random() < 0.25:
                    cfgc["keep"] = False
                    cfgc["between"] = rng.choice(["flush", "replace", "ensure"])
                runs.append({"run": rid, "cfg": cfgc, "ops": []})
    for n in range(0, maxlen_r + 1):
        for s in itertools.product(ALPHA, repeat=n):
            for block in (0, 1, 2, 3, 4):
                for mx in (-1, 0, 1):
                    lims = [-1] + list(range(0, n + 1))
                    if tier == "quick":
                        lims = [-1, rng.choice(lims)]
                    for lim in lims:
                        rid += 1
                        runs.append({"run": rid, "cfg": {"kind": "reader", "stream": list(s), "block": block,
                                                         "sched": rng.choice(SCHEDS), "max": mx, "limit": lim},
                                     "ops": []})
    # the judge family: skip / stop at chosen offsets (the configuration space of the second StreamMC run, sampled per stream)
    for n in range(0, 4):
        for s in itertools.product(ALPHA, repeat=n):
            for block in (0, 2, 3):
                for _ in range(2 if tier == "quick" else 6):
                    rid += 1
                    runs.append({"run": rid, "cfg": {"kind": "reader", "stream": list(s), "block": block, "sched": rng.choice(SCHEDS),
                                                     "max": rng.choice([-1, 0, 1]), "limit": rng.choice([-1, -1, 2]),
                                                     "skip_at": rng.choice([[], [0], [1], [2], [3]]),
                                                     "stop_at": rng.choice([[], [], [0], [1], [2], [3]])}, "ops": []})
    n_enum = rid
    # (2) seeded record-rich / faulty streams
    for s in _random_streams(rng, tier):
        for _ in range(2 if tier == "quick" else 3):
            block = rng.choice([0, 1, 2, 3, 4, 5, 7, 8, 16, 4096, -1, (1 << 20) - 1, 1 << 20, (1 << 20) + 1, 2 << 20]) if len(s) < 3000 \
                else rng.choice([4096, -1, 1 << 20])
            sched = rng.choice(SCHEDS + [[rng.randrange(0, 9) for _ in range(5)] + [4]])
            rid += 1
            runs.append({"run": rid, "cfg": {"kind": "chunker", "stream": s, "block": block, "sched": sched,
                                             "prep": rng.choice([-1, 0, 1, 2, 3, 4, 5, 6, 7, 9, 17])}, "ops": []})
            if rng.random() < 0.5:
                # a caller that drops every chunk at once and flushes / replaces / grows its arena between two pumps
                rid += 1
                runs.append({"run": rid, "cfg": {"kind": "chunker", "stream": s, "block": block, "sched": sched, "keep": False,
                                                 "between": rng.choice(["flush", "replace", "ensure", "flush"]),
                                                 "prep": rng.choice([-1, 0, 1, 3])}, "ops": []})
            rid += 1
            mx = rng.choice([-1, -1, 0, 1, 5, 40, 252, 300])
            lim = rng.choice([-1, -1, 0, 1, 2, len(s) // 2, len(s), len(s) + 5]) if s else -1
            cfgr = {"kind": "reader", "stream": s, "block": block, "sched": sched, "max": mx, "limit": lim}
            if rng.random() < 0.3 and s:
                # offsets where records start / delimiters end are the interesting ones
                pts = [0] + [i + 2 for i in range(len(s) - 1) if s[i] == FE and s[i + 1] == FD]
                cfgr["skip_at"] = sorted(set(rng.choice(pts) for _ in range(rng.randrange(0, 3))))
                cfgr["stop_at"] = sorted(set(rng.choice(pts) for _ in range(rng.randrange(0, 2))))
            runs.append({"run": rid, "cfg": cfgr, "ops": []})
    # records whose decoded size is right at the judge's limit, around the 252-byte first chunk (encoded size = size + 1 or + 3)
    for plen in (1, 250, 251, 252, 253, 254, 300):
        rec = _enc_simple([(i * 3 + 1) % 251 for i in range(plen)])
        st = [1, 97, FE, FD] + rec + [FE, FD, 1, 98]
        for mx in (plen - 1, plen, plen + 1, plen + 2, plen + 3):
            if mx < 0:
                continue
            rid += 1
            runs.append({"run": rid, "cfg": {"kind": "reader", "stream": st, "block": rng.choice([-1, 3, 4096]), "sched": rng.choice(SCHEDS),
                                             "max": mx, "limit": -1}, "ops": []})
    # (3) long streams: stuff sequences that straddle / start at / end at large power-of-two offsets and read boundaries,
    # with block sizes of 64 KiB and more (the default is 512 KiB)
    def _long(pairs, n=140000):
        st = [(i * 7 + 3) % 251 for i in range(n)]
        for q in pairs:
            st[q], st[q + 1] = FE, FD
        return st
    # one pair only (offsets are relative to the chunker's buffer, which restarts after every sentinel), a second pair
    # the same distance after the first, and several pairs in one stream
    longs = [_long([65536 + sh]) for sh in (-1, 0, -2)] + [_long([3000 + sh, 4096 + sh, 65536 + sh, 131072 + sh]) for sh in (-1,)]
    longs += [_long([65535, 65537 + 65535])]
    if tier != "quick":
        longs += [_long([131072 + sh]) for sh in (-1, 0, -2)] + [_long([3000 + sh, 4096 + sh, 65536 + sh, 131072 + sh]) for sh in (0, -2)]
        longs += [_long([4095, 4097 + 65535]), _long([65534, 65536 + 65536])]
    # ... and logs of valid records whose delimiter lands there: a record of encoded size 65535 (payload 65530) +- 2, a small record
    longs_r = []
    for plen in ((65528, 65529, 65530, 65531, 65532) if tier != "quick" else (65529, 65530, 65531)):
        rec = _enc_simple([(i * 5 + 1) % 251 for i in range(plen)])
        longs_r.append(rec + [FE, FD] + _enc_simple([97, 98, 99]) + [FE, FD] + rec[:300])
    n_long = 0
    for st in longs_r:
        for block in ((-1, 131072) if tier == "quick" else (-1, 65536, 65537, 131072, 1 << 20)):
            for sched in (([], [3000]) if tier == "quick" else ([rng.choice([[], [3000], [65536]])])):
                rid += 1
                runs.append({"run": rid, "cfg": {"kind": "reader", "stream": st, "block": block, "sched": sched,
                                                 "max": rng.choice([-1, 70000]), "limit": -1}, "ops": []})
    for st in longs:
        for block in ([65536, -1, 131072] if tier == "quick" else [4096, 65536, 65537, 131072, -1, 1 << 20]):
            scheds = [[], [3000], [65536], [65535, 0, 1], [4096, 0]]
            # (each of these runs is 140 KB of trace: a sample of the schedules per block size, not the product)
            for sched in ([rng.choice(scheds)] if tier == "quick" else rng.sample(scheds, 2)):
                rid += 1
                n_long += 1
                runs.append({"run": rid, "cfg": {"kind": "chunker", "stream": st, "block": block, "sched": sched,
                                                 "prep": rng.choice([-1, -3, 0, 5])}, "ops": []})
                if tier != "quick" or rng.random() < 0.5:
                    rid += 1
                    runs.append({"run": rid, "cfg": {"kind": "reader", "stream": st, "block": block, "sched": sched,
                                                     "max": rng.choice([-1, 70000]), "limit": -1}, "ops": []})
    trace = core.drive("stream", runs, work, "stream")
    tv = tlc.validate_trace("StreamTrace", "StreamTrace.cfg", trace, os.path.join(work, "tv"), timeout=3000)
    by_id = {r["run"]: r for r in runs}
    res.add_tv(tv, by_id, "stream", "enumerated configurations + seeded streams", crash_props=("C06", "C08", "C05"))
    # coverage statistic: distinct runs whose stream has a stuff sequence split across two reads
    nontrivial = set()
    for r in runs:
        s = r["cfg"]["stream"]
        if any(s[i] == FE and s[i + 1] == FD for i in range(len(s) - 1)) and r["cfg"]["block"] in (0, 1, 2, 3, 5, 7):
            nontrivial.add(hashlib.sha1(json.dumps(r["cfg"], sort_keys=True).encode()).hexdigest())
    rule = ("distinct runs (stream, block size, read schedule, arena state / judge parameters) whose stream "
            "contains FE FD and whose block size (0,1,2,3,5,7) makes the stuff sequence arrive across read "
            "boundaries; runs = the configuration space enumerated by StreamMC executed on the real code (%d) "
            "+ seeded record-rich, truncated-at-every-byte, corrupted and garbage streams (%d)"
            % (n_enum, rid - n_enum))
    for p in ("C08", "C06"):
        res.data["witness"][p] = {"count": len(nontrivial), "rule": rule}
    res.data["samples"]["*"] = [runs[200]["cfg"], runs[n_enum - 1]["cfg"], runs[-1]["cfg"]]
    os.remove(trace)


def replay(rep, work):
    run = rep["run"]
    trace = core.drive("stream", [run], work, "replay")
    tv = tlc.validate_trace("StreamTrace", "StreamTrace.cfg", trace, os.path.join(work, "tv"))
    return tv["viol"] + core.crash_viols(("C06", "C08", "C05"))
