"""Engine `codec`: HCOBS Encoder / Decoder (C01, C02, C07, C09; codec part of C10).

codec.small : design MC of the transcribed encoder/decoder against the pure format (all inputs
              and segmentations within bounds), edge cover replayed through hook H3 (tiny limits),
              seeded random tiny-limit round trips;
codec.prod  : the real Encoder/Decoder at production limits on boundary-shaped inputs; the
              recorded bytes are validated by TLC evaluating the format definition with the
              literal constants 252 / 64008 / 253.
"""
import hashlib
import json
import os
import random
import re

from .. import core, tlc, graph_cover, tlaval

METHODS = ["borrow", "copy", "anchored", "read", "foreign"]
FE, FD = 254, 253


def _cfg(path, text):
    with open(path, "w") as f:
        f.write(text)
    return path


def _mc(res, work, side, l1, l2, alphabet, maxlen, tag):
    consts = ('Side = "%s"\n  L1 = %d\n  L2 = %d\n  R = 253\n  Alphabet = {%s}\n  MaxLen = %d\n  MaxPiece = %d\n'
              % (side, l1, l2, ",".join(map(str, alphabet)), maxlen, maxlen))
    cfg = _cfg(os.path.join(work, "HcobsMC_%s.cfg" % tag),
               "SPECIFICATION Spec\nCONSTANTS\n  %sINVARIANTS NoAssert Canonical NoStuff Bounded RoundTrip "
               "StablePrefix DecExact DecStream\nCHECK_DEADLOCK FALSE\n" % consts)
    dot = os.path.join(work, "hcobs_graph_" + tag)
    r = tlc.run_tlc("HcobsMC", cfg, os.path.join(work, "mc"), workers=8, timeout=1800, dump_dot=dot)
    if r["violated"]:
        raise core.ToolError("design check HcobsMC(%s) violated %s (specification error):\n%s"
                             % (tag, r["violated"], r["out"][-3000:]))
    res.add_mc("HcobsMC %s (L1,L2)=(%d,%d): transcribed %s vs pure format, all inputs <= %d and all segmentations"
               % (side, l1, l2, "encoder" if side == "enc" else "decoder", maxlen), r,
               consts.replace("\n", ";"))
    g = graph_cover.parse_dot(dot + ".dot", keep_node_labels=True)
    os.remove(dot + ".dot")
    paths = graph_cover.edge_cover(g, max_run=50)
    res.data["edge_cover"].append({"graph": "HcobsMC " + tag, "edges": len(g.edges), "paths": len(paths),
                                   "ops": sum(len(p) for p in paths)})
    # The quantified set of Next depends on the state, so TLC labels every edge "Next"; the
    # operation of an edge is recovered from the `fed` variable of its end points.
    fed = {}
    for nid, lab in g.labels.items():
        m = re.search(r"fed = (<<[^>]*>>)", tlaval.unescape_dot(lab))
        if not m:
            raise core.ToolError("cannot find fed in state label")
        fed[nid] = tlaval.parse(m.group(1))
    out = []
    for p in paths:
        pieces = []
        for i in p:
            src, dst, _ = g.edges[i]
            if len(fed[dst]) > len(fed[src]):
                pieces.append(fed[dst][len(fed[src]):])
        out.append(pieces)
    return out


def _remix(rng, ops):
    """second pass over a run's operations: sometimes one feed method for the whole run (so that the arena-backed
    ones roll the arena over many times), sometimes the producer's shared arena ("shared": anchored slices of an
    arena that outlives the call and is dropped at a random later moment)."""
    policy = rng.random()
    one = rng.choice(METHODS + ["shared", "shared", "ahead", "ahead", "flaky", "split"]) if policy < 0.4 else None
    out = []
    for op in ops:
        if op["ev"] == "feed":
            op = dict(op)
            if one is not None:
                op["m"] = one
            elif rng.random() < 0.25:
                op["m"] = rng.choice(["shared", "ahead", "flaky", "split"])
            if op["m"] == "flaky":
                # read sizes of the producer's reader (0 = EINTR), cyclic
                op["sched"] = rng.choice([[1, 0, 2, 0, 0, 3], [0, 1], [0, 0, 7], [100, 0, 1, 0], [3, 0]])
        out.append(op)
        if op["ev"] == "feed" and rng.random() < 0.06:
            # an arena read that hits end of file at once, or an empty piece: must be a no-op for the codec
            out.append({"ev": "feed", "m": rng.choice(["eof", "borrow", "copy", "anchored", "foreign"]), "n": 0})
        if op["ev"] == "drain" and rng.random() < 0.3:
            out.append({"ev": "drop_shared"})
    return out


def _ops_for(rng, piece_lens, drains=True):
    ops = []
    for n in piece_lens:
        ops.append({"ev": "feed", "m": rng.choice(METHODS), "n": n})
        if rng.random() < 0.08:
            ops.append({"ev": "flush"})
        if drains and rng.random() < 0.4:
            mode = rng.choice(["slices", "bytes", "read"])
            n2 = rng.choice([0, 1, 1, 2, 3, 5, 1000000])
            ops.append({"ev": "drain", "mode": mode, "n": n2})
    if drains and rng.random() < 0.3:
        ops.append({"ev": "drain", "mode": rng.choice(["slices", "bytes", "read"]), "n": 1000000})
    ops.append({"ev": "finish"})
    return ops


def _dec_ops(rng, total_guess, drains=True):
    """feed ops for a decoder whose input length is only known to the harness."""
    ops = []
    style = rng.choice(["one", "bytes", "random", "random"])
    if style == "one":
        ops.append({"ev": "feed", "m": rng.choice(METHODS), "n": -1})
    else:
        left = total_guess + 8
        while left > 0:
            n = 1 if style == "bytes" else rng.choice([1, 1, 2, 3, 5, 8, 13, 64, 300])
            ops.append({"ev": "feed", "m": rng.choice(METHODS), "n": n})
            left -= n
            if drains and rng.random() < 0.3:
                ops.append({"ev": "drain", "mode": rng.choice(["slices", "bytes", "read"]),
                            "n": rng.choice([0, 1, 2, 5, 1000000])})
        ops.append({"ev": "feed", "m": "copy", "n": -1})
    ops.append({"ev": "finish"})
    return ops


def _count_nontrivial(runs):
    """distinct runs whose plain/encoded input contains FE or FD next to a chunk limit or is
    fed in >= 2 pieces (coverage statistic)."""
    seen = set()
    for r in runs:
        nfeeds = sum(1 for o in r["ops"] if o["ev"] == "feed")
        inp = r["cfg"]["input"]
        if nfeeds >= 2 and (FE in inp or FD in inp):
            seen.add(hashlib.sha1(json.dumps([r["cfg"]["kind"], r["cfg"]["l1"], r["cfg"]["l2"], inp,
                                              r["ops"]]).encode()).hexdigest())
    return len(seen)


def run_small(res, work, tier, seed):
    os.makedirs(work, exist_ok=True)
    rng = random.Random(seed * 7919 + 1)
    runs = []
    rid = [0]
    iids = {}

    def iid_of(kind, l1, l2, inp):
        k = (l1, l2, tuple(inp))
        if k not in iids:
            iids[k] = len(iids) + 1
        return iids[k]

    def add(kind, l1, l2, inp, ops):
        rid[0] += 1
        runs.append({"run": rid[0], "cfg": {"kind": kind, "l1": l1, "l2": l2, "prod": False, "full": True,
                                            "input": list(inp), "iid": iid_of(kind, l1, l2, inp) if kind != "dec" else 0},
                     "ops": ops})

    enc_len = 6 if tier == "quick" else 8
    dec_len = 4 if tier == "quick" else 5
    limits = [(2, 3), (3, 5)] if tier == "quick" else [(1, 2), (2, 3), (3, 5), (4, 7)]
    n_det = 0
    for (l1, l2) in limits:
        for pieces in _mc(res, work, "enc", l1, l2, [FE, FD, 7], enc_len, "enc_%d_%d" % (l1, l2)):
            inp = [b for p in pieces for b in p]
            kind = "rt" if rng.random() < 0.5 else "enc"
            ops = _ops_for(rng, [len(p) for p in pieces])
            if kind == "rt":
                ops += _dec_ops(rng, len(inp) * 2 + 4)
            add(kind, l1, l2, inp, ops)
            n_det += 1
        alpha = sorted(set([0, 1, 2, l1, l2, l2 + 1, 252, FD, FE]))[:9]
        for pieces in _mc(res, work, "dec", l1, l2, alpha, dec_len, "dec_%d_%d" % (l1, l2)):
            inp = [b for p in pieces for b in p]
            add("dec", l1, l2, inp, _ops_for(rng, [len(p) for p in pieces]))
            n_det += 1
    # the composed design model: the transcribed encoder running on the transcribed OwningIovec (header placeholders,
    # stable prefix, drains at any moment): prefix / one-hole / lag invariants for all inputs, segmentations, drain schedules
    for (l1, l2) in ([(2, 3)] if tier == "quick" else [(2, 3), (3, 5)]):
        ml = 6 if tier == "quick" else 8
        consts = ("L1 = %d\n  L2 = %d\n  R = 253\n  Alphabet = {254, 253, 7}\n  MaxLen = %d\n  MaxPiece = %d\n  SmallCopy = 1\n"
                  "  OppCopy = 2\n  Sizes <- CS_tiny\n" % (l1, l2, ml, ml))
        cfg = _cfg(os.path.join(work, "HcobsOnIovec_%d_%d.cfg" % (l1, l2)),
                   "SPECIFICATION Spec\nCONSTANTS\n  %sINVARIANTS NoAssert Prefix OneHole Lag DoneComplete\nCHECK_DEADLOCK FALSE\n" % consts)
        r = tlc.run_tlc("HcobsOnIovecMC", cfg, os.path.join(work, "mc"), workers=8, timeout=3000)
        if r["violated"]:
            raise core.ToolError("design check HcobsOnIovec violated %s (specification error):\n%s" % (r["violated"], r["out"][-3000:]))
        res.add_mc("HcobsOnIovec (L1,L2)=(%d,%d): transcribed encoder on the transcribed OwningIovec; drained++consumable is a "
                   "prefix of RefEncode, exactly one header placeholder pending, lag <= chunk + L2 + 2, for all inputs <= %d, "
                   "segmentations, copy/borrow and drain schedules" % (l1, l2, ml), r, consts.replace("\n", ";"))
    # seeded random tiny-limit round trips and corrupted encodings
    n_rand = 1500 if tier == "quick" else 20000
    for _ in range(n_rand):
        l1, l2 = rng.choice([(1, 2), (2, 3), (3, 5), (4, 7), (7, 11), (5, 254), (252, 300)])
        n = rng.choice([0, 1, 2, 3, 5, 8, 13, 21, 40, 80] if l2 < 100 else [0, 5, 250, 255, 300, 600, 900])
        dens = rng.choice([0.2, 0.5, 0.9])
        inp = [rng.choice([FE, FD]) if rng.random() < dens else rng.choice([0, 1, 7, 252, 255, FE - 1]) for _ in range(n)]
        lens = []
        left = n
        while left > 0:
            k = min(left, rng.choice([1, 1, 2, 3, 4, 7, 20, 300]))
            lens.append(k)
            left -= k
        ops = _ops_for(rng, lens) + _dec_ops(rng, n * 2 + 4)
        add("rt", l1, l2, inp, ops)
        if 0 < n <= 100:
            # the same input once more, byte by byte (or in one piece if it was fed byte-wise): split independence (C02)
            alt = [n] if all(k == 1 for k in lens) else [1] * n
            add("enc", l1, l2, inp, _ops_for(rng, alt, drains=False))
        if rng.random() < 0.3:
            # arbitrary / corrupted string for the decoder
            m = rng.choice([1, 2, 3, 5, 8, 12])
            junk = [rng.choice([0, 1, 2, 3, l1, l2, l2 + 1, 252, FD, FE, 255, 7]) for _ in range(m)]
            add("dec", l1, l2, junk, _dec_ops(rng, m)[:-1] + [{"ev": "finish"}])
    for r in runs:
        r["ops"] = _remix(rng, r["ops"])
    runs.sort(key=lambda r: r["cfg"]["iid"])        # equal inputs adjacent (split-independence monitor)
    trace = core.drive("codec", runs, work, "codec_small")
    tv = tlc.validate_trace("HcobsTrace", "HcobsTrace.cfg", trace, os.path.join(work, "tv"), timeout=1800)
    by_id = {r["run"]: r for r in runs}
    res.add_tv(tv, by_id, "codec", "H3 edge-cover + random tiny-limit", crash_props=("C01", "C07", "C05"))
    _attach_groups(res, runs)
    cnt = _count_nontrivial(runs)
    rule = ("distinct codec runs (limits, input, operation sequence) fed in >= 2 pieces whose input contains "
            "FE or FD; runs = edge-cover paths of the HcobsMC graphs executed through hook H3 (%d) + seeded random "
            "tiny-limit round trips / junk decodes (%d)" % (n_det, len(runs) - n_det))
    for p in ("C01", "C02", "C07", "C09"):
        res.data["witness"][p] = {"count": cnt, "rule": rule}
    res.data["samples"]["*"] = [{"cfg": runs[0]["cfg"], "ops": runs[0]["ops"]},
                                {"cfg": runs[-1]["cfg"], "ops": runs[-1]["ops"][:12]}]
    os.remove(trace)


# ---------------------------------------------------------------- production limits
L1P, L2P = 252, 64008


def _filler(n, rng):
    # stuff-free filler: ramp over 0..250 (never FE/FD adjacent)
    start = rng.randrange(251)
    return [(start + i) % 251 for i in range(n)]


def _plant(buf, pos, pat):
    for i, b in enumerate(pat):
        if 0 <= pos + i < len(buf):
            buf[pos + i] = b


def prod_inputs(rng, tier):
    """boundary-shaped inputs for the production limits"""
    out = []
    for n in [0, 1, 2, 251, 252, 253, 254]:
        out.append(_filler(n, rng))
    b1 = L1P                      # first window ends after 252 bytes
    b2 = L1P + L2P                # second window ends after 64260 bytes
    pats = [[FE, FD], [FE], [FD], [FE, FE, FD], [FE, FD, FE, FD]]
    for off in range(-3, 3):
        for pat in (pats if tier != "quick" else pats[:3]):
            buf = _filler(L1P + rng.choice([40, 40, 1500, 3000]), rng)   # (some long enough for "large piece" paths)
            _plant(buf, b1 + off, pat)
            out.append(buf)
    offs2 = range(-3, 3) if tier != "quick" else [-2, -1, 0]
    for off in offs2:
        for pat in pats[:2]:
            buf = _filler(b2 + 30, rng)
            _plant(buf, b2 + off, pat)
            if rng.random() < 0.5:
                _plant(buf, b1 - 1, [FE, FD])      # straddles the first window
            out.append(buf)
    for n in [b2 - 1, b2, b2 + 1]:
        out.append(_filler(n, rng))
    # a size-limited chunk that ends in FE, followed by a chunk of about one radix (its header byte follows that FE)
    for sz in (252, 253, 254, 253 + 252, 2 * 253):
        buf = _filler(b1 + sz, rng)
        buf[b1 - 1] = FE
        out.append(buf)
    buf = _filler(b2 + 253, rng)
    buf[b2 - 1] = FE
    out.append(buf)
    if tier != "quick":
        b3 = b2 + L2P
        for off in (-2, -1, 0, 1):
            buf = _filler(b3 + 10, rng)
            _plant(buf, b3 + off, [FE, FD])
            out.append(buf)
        out.append(_filler(b3, rng))
    # later chunks of many sizes: every interesting (low, high) pair of radix-253 header digits
    lows = [0, 1, 0xFC, 0xF1, 0x80] if tier == "quick" else [0, 1, 2, 0x7F, 0x80, 0xF1, 0xFC]
    highs = [0, 1, 0x0E] if tier == "quick" else [0, 1, 2, 0x0E, 0x7F, 0x80, 0xFC]
    sizes = sorted({lo + 253 * hi for lo in lows for hi in highs if lo + 253 * hi < L2P} | {253 * 237, 253 * 252})
    group, total = [], 0
    for sz in sizes + [None]:
        if sz is None or total + sz > 90000:
            if group:
                buf = _filler(10, rng) + [FE, FD]
                for g in group:
                    buf += _filler(g, rng) + [FE, FD]
                out.append(buf + _filler(3, rng))
            group, total = [], 0
        if sz is not None:
            group.append(sz)
            total += sz
    # FE/FD dense
    for n in ([300, 1000, 3000] if tier == "quick" else [300, 1000, 3000, 8000, 8000]):
        out.append([rng.choice([FE, FD, FE, FD, 0, 255]) for _ in range(n)])
    out.append([1] * 70000)
    out.append([0] * 300)
    out.append([FE] * 600)
    out.append([FD] * 600)
    out.append([FE, FD] * 400)
    return out


def _prod_segmentations(rng, n, tier):
    segs = [[n] if n else []]
    if 0 < n <= 1200:
        segs.append([1] * n)
    cuts = sorted(set(c for c in [L1P - 1, L1P, L1P + 1, L1P + L2P - 1, L1P + L2P, L1P + L2P + 1] if 0 < c < n))
    if cuts:
        c = rng.choice(cuts)
        segs.append([c, n - c])
    lens = []
    left = n
    while left > 0:
        k = min(left, rng.choice([1, 7, 63, 64, 65, 255, 256, 257, 1000, 4096, 30000, 65536, 300000]))
        lens.append(k)
        left -= k
    if lens:
        segs.append(lens)
    if n >= 5000:
        # many medium pieces: 65..256 bytes is the range where push() copies opportunistically
        k = rng.choice([65, 128, 200, 256])
        segs.append([k] * (n // k) + ([n % k] if n % k else []))
    return segs


def run_prod(res, work, tier, seed):
    os.makedirs(work, exist_ok=True)
    rng = random.Random(seed * 7919 + 7)
    runs = []
    inputs = prod_inputs(rng, tier)
    rid = 0
    for ii, inp in enumerate(inputs):
        segs = _prod_segmentations(rng, len(inp), tier)
        if tier == "quick" and len(inp) > 3000:
            segs = [rng.choice(segs[:1] + segs[2:])] if len(inp) > 100000 else segs[:1] + [segs[-1]]
        multi = len(segs) > 1 and len(inp) <= 70000
        for lens in segs:
            rid += 1
            big = len(inp) > 2000
            ops = []
            for n in lens:
                ops.append({"ev": "feed", "m": rng.choice(METHODS), "n": n})
                if rng.random() < (0.5 if len(lens) < 50 else 0.05):
                    ops.append({"ev": "drain", "mode": rng.choice(["slices", "bytes", "read"]),
                                "n": rng.choice([1, 2, 100, 5000, 10 ** 7])})
            ops.append({"ev": "finish"})
            # decoder side: segmentation of the (unknown-length) encoding
            dstyle = rng.choice(["one", "rand"]) if big else rng.choice(["one", "bytes", "rand"])
            if dstyle == "one":
                ops.append({"ev": "feed", "m": rng.choice(METHODS), "n": -1})
            elif dstyle == "bytes":
                ops += [{"ev": "feed", "m": rng.choice(METHODS), "n": 1} for _ in range(len(inp) + 2 * (len(inp) // 100) + 8)]
            else:
                left = len(inp) + 16
                while left > 0:
                    k = rng.choice([1, 2, 3, 250, 253, 254, 1000, 64009, 64010, 64011, 200000])
                    ops.append({"ev": "feed", "m": rng.choice(METHODS), "n": k})
                    left -= k
                    if rng.random() < 0.3:
                        ops.append({"ev": "drain", "mode": rng.choice(["slices", "bytes", "read"]),
                                    "n": rng.choice([1, 3, 1000, 10 ** 7])})
            ops.append({"ev": "feed", "m": "copy", "n": -1})
            ops.append({"ev": "finish"})
            runs.append({"run": rid, "cfg": {"kind": "rt", "l1": L1P, "l2": L2P, "prod": True,
                                             "full": not big, "input": inp, "iid": (ii + 1) if multi else 0},
                         "ops": ops})
    # scripted call patterns around the size thresholds of push() (64: always copied, 256: copied opportunistically):
    # (a) a call that ends in FE (held back) followed by one large FE-free piece, which may start with FD;
    # (b) medium anchored pieces right after a large borrowed one, from the codec's own / a foreign / a shared arena,
    #     drained or not in between, many times (the codec's arena rolls over several chunks)
    scripted = []
    for start in ([FD], []):
        for big in (257, 400, 5000):
            inp = _filler(300, rng) + [FE] + start + _filler(big - len(start), rng) + [FE] + _filler(700, rng)
            for m in ("borrow", "anchored", "read", "foreign", "shared", "copy"):
                ops = [{"ev": "feed", "m": rng.choice(["borrow", "copy", m]), "n": 301},
                       {"ev": "drain", "mode": "bytes", "n": rng.choice([0, 1, 10 ** 6])},
                       {"ev": "feed", "m": m, "n": big}, {"ev": "feed", "m": m, "n": 1},
                       {"ev": "drain", "mode": "read", "n": 10 ** 6}, {"ev": "feed", "m": m, "n": -1}, {"ev": "finish"}]
                scripted.append((inp, ops))
    for m in ("anchored", "read", "foreign", "shared"):
        for med in (65, 200, 256):
            for drain in (True, False):
                reps = 12 if m in ("foreign", "shared") else 60
                inp = _filler(reps * (1000 + med) + 10, rng)
                ops = []
                for _ in range(reps):
                    ops += [{"ev": "feed", "m": "borrow", "n": 1000}, {"ev": "feed", "m": m, "n": med}]
                    if drain:
                        ops.append({"ev": "drain", "mode": rng.choice(["slices", "bytes", "read"]), "n": rng.choice([1, 900, 10 ** 6])})
                        if m == "shared" and rng.random() < 0.5:
                            ops.append({"ev": "drop_shared"})
                ops += [{"ev": "feed", "m": "copy", "n": -1}, {"ev": "finish"}]
                scripted.append((inp, ops))
    dec_scripts = {}
    # (c) an arena read split in two (anchored half + copied half); an anchored piece that leaves no slice behind (a lone FE
    #     is held back by the encoder; header bytes alone give the decoder nothing to emit) right after a large borrowed
    #     anchored piece whose chunk nothing else keeps alive
    for pre_n in (5, 300):
        inp = _filler(pre_n, rng) + [FE, FD] + _filler(20, rng)
        for m0 in ("eof", "borrow", "copy"):
            scripted.append((inp, [{"ev": "feed", "m": "copy", "n": pre_n + 1}, {"ev": "feed", "m": m0, "n": 0},
                                   {"ev": "feed", "m": "borrow", "n": -1}, {"ev": "finish"}]))
    # more than a thousand borrowed slices in flight: 700 runs of 300 bytes separated by stuff sequences, never drained
    inp = []
    for _ in range(700):
        inp += _filler(300, rng) + [FE, FD]
    scripted.append((inp, [{"ev": "feed", "m": "borrow", "n": -1}, {"ev": "finish"}]))
    dec_scripts[len(scripted) - 1] = [{"ev": "feed", "m": "borrow", "n": -1}, {"ev": "finish"}]
    for k in (1, 3, 4, 6, 12, 63):
        inp = _filler(600, rng)
        ops = [{"ev": "feed", "m": "copy", "n": k} for _ in range(600 // k + 1)]
        for j in range(len(ops) - 1, 0, -7):
            ops.insert(j, {"ev": "drain", "mode": "slices", "n": 1})
        scripted.append((inp, ops + [{"ev": "feed", "m": "copy", "n": -1}, {"ev": "finish"}]))
    for n in (3000, 200, 6000):
        inp = _filler(n, rng)
        scripted.append((inp, [{"ev": "feed", "m": "split", "n": -1}, {"ev": "drain", "mode": "read", "n": 10 ** 6}, {"ev": "finish"}]))
        dec_scripts[len(scripted) - 1] = [{"ev": "feed", "m": "split", "n": -1}, {"ev": "drain", "mode": "slices", "n": 10 ** 6},
                                          {"ev": "feed", "m": "copy", "n": -1}, {"ev": "finish"}]
    for m in ("foreign", "anchored", "shared", "ahead"):
        inp = _filler(300, rng) + [FE] + _filler(300, rng)
        ops = [{"ev": "feed", "m": m, "n": 300}, {"ev": "feed", "m": m, "n": 1}, {"ev": "drain", "mode": "read", "n": 10 ** 6},
               {"ev": "feed", "m": m, "n": 300}, {"ev": "finish"}]
        scripted.append((inp, ops))
        inp = _filler(352, rng)        # encodes as [252] 252 bytes [100, 0] 100 bytes
        dec_scripts[len(scripted)] = [{"ev": "feed", "m": m, "n": 253}, {"ev": "feed", "m": m, "n": 1}, {"ev": "feed", "m": m, "n": 1},
                                      {"ev": "drain", "mode": "slices", "n": 10 ** 6}, {"ev": "feed", "m": m, "n": -1},
                                      {"ev": "finish"}]
        scripted.append((inp, [{"ev": "feed", "m": "copy", "n": -1}, {"ev": "finish"}]))
    for k, (inp, ops) in enumerate(scripted):
        rid += 1
        dops = dec_scripts.get(k) or [{"ev": "feed", "m": rng.choice(METHODS + ["shared"]), "n": -1},
                                      {"ev": "feed", "m": "copy", "n": -1}, {"ev": "finish"}]
        runs.append({"run": rid, "cfg": {"kind": "rt", "l1": L1P, "l2": L2P, "prod": True, "full": len(inp) <= 8000, "input": inp,
                                         "iid": 0, "noremix": True},
                     "ops": ops + dops})
    n_rt = rid
    # decoder negative space: truncations and header corruptions of a valid encoding, garbage
    base = [3, 1, 2, 3, 2, 0, 9, 9]           # "1 2 3" FE FD "9 9": short first chunk, short second chunk
    negs = [base[:k] for k in range(len(base) + 1)]
    for bad in (FD, FE, 255):
        negs.append([bad] + base[1:])
        negs.append(base[:4] + [bad] + base[5:])
        negs.append(base[:5] + [bad] + base[6:])
    negs.append([252] + [5] * 252 + [0, 0])                       # full first chunk, empty final chunk
    negs.append([252] + [5] * 252)                                # full first chunk, no terminator
    negs.append([252] + [5] * 252 + [252, 252] + [6] * 64008 + [0, 0])   # full later chunk (size 64008 = 252+252*253)
    negs.append([252] + [5] * 252 + [252, 252] + [6] * 64008)
    negs.append([252] + [5] * 252 + [0, 253])                    # second digit out of radix
    negs.append([252] + [5] * 252 + [1, 253 - 1] + [6] * 10)     # size 1+252*253 = 63757: cut short
    for _ in range(40 if tier == "quick" else 400):
        negs.append([rng.choice([0, 1, 2, 3, 5, 252, FD, FE, 255]) for _ in range(rng.choice([1, 2, 3, 4, 6, 9]))])
    # "alias" encodings: strings that would decode consistently if one header check were skipped
    # (out-of-radix low digit with a payload of exactly that size, sizes just above a limit)
    alias = []
    for low in (253, 254, 255):
        for high in (0, 1):
            sz = low + 253 * high
            alias.append([1, 7] + [low, high] + [9] * sz + [0, 0])
            alias.append([252] + [5] * 252 + [low, high] + [9] * sz + [0, 0])
    alias.append([253] + [5] * 253 + [0, 0])
    alias.append([1, 7, 0, 253] + [9] * 10)
    alias.append([1, 7] + [253 - 1, 253] + [9] * 64261 + [0, 0])      # 252 + 253*253 = 64261 > 64008
    alias.append([1, 7] + [0, 253 - 0] + [0, 0])
    alias.append([1, 7] + [1, 253 - 0] + [3] * (1 + 253 * 253) + [0, 0])
    styled = [(j, None) for j in negs] + [(j, st) for j in alias for st in ("one", "bytes", "rand")]
    for junk, forced in styled:
        rid += 1
        n = len(junk)
        style = forced or (rng.choice(["one", "bytes", "rand"]) if n < 2000 else "one")
        if n > 5000 and style == "bytes":
            style = "rand"
        if style == "one":
            fo = [{"ev": "feed", "m": rng.choice(METHODS), "n": -1}]
        elif style == "bytes":
            fo = [{"ev": "feed", "m": rng.choice(METHODS), "n": 1} for _ in range(n)]
        else:
            fo = [{"ev": "feed", "m": rng.choice(METHODS), "n": rng.choice([1, 2, 3])} for _ in range(n)]
        fo.append({"ev": "feed", "m": "copy", "n": -1})
        runs.append({"run": rid, "cfg": {"kind": "dec", "l1": L1P, "l2": L2P, "prod": True, "full": n < 2000,
                                         "input": junk, "iid": 0},
                     "ops": fo + [{"ev": "finish"}]})
    # validate in batches (bounded TLC memory)
    for r in runs:
        if not r["cfg"].pop("noremix", False):
            r["ops"] = _remix(rng, r["ops"])
        # Encoder/Decoder::new_from_iovec: the codec appends after what the OwningIovec already holds
        if rng.random() < 0.25:
            pre = _filler(rng.choice([1, 3, 64, 65, 300]), rng)
            if rng.random() < 0.5:
                pre[-1] = FE
            r["cfg"]["pre"] = pre
            r["cfg"]["pre_m"] = rng.choice(["copy", "borrow"])
            # ... possibly behind a placeholder of the caller's own that is only filled once the codec is done
            if rng.random() < 0.4:
                r["cfg"]["pre_hole"] = rng.choice([1, 2, 4])
        # Decoder::take_iovec: stop the decoder phase after a random number of its operations
        if rng.random() < 0.15 and len(r["cfg"]["input"]) <= 70000:
            fins = [i for i, op in enumerate(r["ops"]) if op["ev"] == "finish"]
            start = fins[0] + 1 if r["cfg"]["kind"] == "rt" else 0
            if len(r["ops"]) - 1 > start:
                cut = rng.randrange(start, len(r["ops"]) - 1)
                r["ops"] = r["ops"][:cut] + [{"ev": "take_iovec"}]
    runs.sort(key=lambda r: r["cfg"]["iid"])
    by_id = {r["run"]: r for r in runs}
    batch, size, bi = [], 0, 0
    batches = []
    for r in runs:
        batch.append(r)
        size += len(r["cfg"]["input"]) * 4 + 200
        if size > 6_000_000:
            batches.append(batch)
            batch, size = [], 0
    if batch:
        batches.append(batch)
    for bi, b in enumerate(batches):
        trace = core.drive("codec", b, work, "codec_prod%d" % bi)
        tv = tlc.validate_trace("HcobsTrace", "HcobsTrace.cfg", trace, os.path.join(work, "tv"),
                                timeout=3000, xmx="12g")
        res.add_tv(tv, {r["run"]: r for r in b}, "codec", "production limits", crash_props=("C01", "C07", "C05"))
        _attach_groups(res, b)
        os.remove(trace)
    cnt = _count_nontrivial(runs)
    rule = ("distinct production-limit runs (real Encoder -> real Decoder round trips, %d; decoder negative "
            "space, %d) fed in >= 2 pieces with FE/FD present; inputs have FE/FD planted at offsets -3..+2 "
            "around the 252 / 64260 / 128268 chunk boundaries" % (n_rt, rid - n_rt))
    for p in ("C01", "C02", "C07", "C09"):
        w = res.data["witness"].get(p)
        res.data["witness"][p] = {"count": cnt + (w["count"] if w else 0),
                                  "rule": rule if not w else w["rule"] + " || " + rule}
    res.data["samples"].setdefault("*", [])
    res.data["samples"]["*"].append({"cfg": {k: v for k, v in runs[8]["cfg"].items() if k != "input"},
                                     "input_len": len(runs[8]["cfg"]["input"]), "ops": runs[8]["ops"][:10]})


def _attach_groups(res, runs):
    """the split-independence monitor compares a run with the previous run of the same input: its replay needs both"""
    by_iid = {}
    for r in runs:
        if r["cfg"].get("iid", 0) > 0:
            by_iid.setdefault(r["cfg"]["iid"], []).append(r)
    for v in res.data["viol"]:
        run = (v.get("replay") or {}).get("run") or {}
        iid = (run.get("cfg") or {}).get("iid", 0)
        if v["prop"] == "C02" and "depends on segmentation" in v["what"] and iid > 0 and "group" not in v["replay"]:
            v["replay"]["group"] = by_iid.get(iid, [run])[:8]


def replay(rep, work):
    run = rep["run"]
    group = rep.get("group") or [run]
    trace = core.drive("codec", group, work, "replay")
    tv = tlc.validate_trace("HcobsTrace", "HcobsTrace.cfg", trace, os.path.join(work, "tv"), xmx="8g")
    return tv["viol"] + core.crash_viols(("C01", "C07", "C05"))


# ---------------------------------------------------------------- long streams (C10 footprint, C09 lag)
def run_footprint(res, work, tier, seed):
    os.makedirs(work, exist_ok=True)
    rng = random.Random(seed * 7919 + 10)
    mib = 1 << 20
    total = (64 if tier == "quick" else 512) * mib
    runs = []
    rid = 0
    shapes = ["ones", "nostuff", "dense", "random"]
    combos = []
    for kind in ("enc", "pipeline"):
        for shape in shapes:
            for m in ("copy", "borrow", "read"):
                for drain in ("bytes", "slices", "read"):
                    combos.append((kind, shape, m, drain))
    rng.shuffle(combos)
    # every (kind, method, drain) triple appears at least once; shapes rotate
    seen = set()
    chosen = []
    for c in combos:
        key = (c[0], c[2], c[3])
        if key not in seen or tier != "quick":
            seen.add(key)
            chosen.append(c)
    for kind, shape, m, drain in chosen:
        rid += 1
        sizes = rng.choice([[1, 7, 1000, 65536, 300000], [65536], [300000, 1, 1, 7], [131072, 4096, 100, 1000],
                            [3145728, 1500000, 5], [1048576]])
        t = total if shape != "dense" else total // 2          # dense = many tiny chunks: slower per byte
        t = max(t, 32 * mib)                                   # long enough for the growth monitor (4 x warm-up)
        runs.append({"run": rid, "cfg": {"kind": kind, "shape": shape, "total": t, "sizes": sizes, "m": m,
                                         "drain": drain, "seed": rng.randrange(1 << 30)}, "ops": []})
    # the length bound of C02 is tight exactly at multiples of the later-chunk limit: stuff-free streams of k * 64008 bytes
    for k in ([300, 1024] if tier == "quick" else [252, 300, 1024, 4000]):
        rid += 1
        runs.append({"run": rid, "cfg": {"kind": "enc", "shape": rng.choice(["ones", "nostuff"]), "total": k * L2P,
                                         "sizes": rng.choice([[65536], [64008], [300000, 7]]), "m": rng.choice(["copy", "borrow", "read"]),
                                         "drain": rng.choice(["bytes", "slices"]), "seed": rng.randrange(1 << 30)}, "ops": []})
    # a producer with its own arena feeding small anchored blocks (the slice's anchor alone keeps its chunk alive),
    # drained only every few calls so that one consume call crosses several slices and keep-alive anchors
    for kind in ("enc", "pipeline"):
        for drain in ("slices", "bytes", "read"):
            rid += 1
            runs.append({"run": rid, "cfg": {"kind": kind, "shape": rng.choice(shapes[:2]), "total": max(total // 2, 32 * mib),
                                             "sizes": rng.choice([[48], [48, 64, 65, 300, 5], [4000, 48]]), "m": "foreign",
                                             "drain": drain, "drain_every": rng.choice([1, 8, 8]), "stride": 31, "seed": rng.randrange(1 << 30)}, "ops": []})
    # the live counters are process-wide atomics: concurrent short histories must leave them at their baseline
    # call sizes in push()'s opportunistic-copy range (65..256 bytes) and between half and the whole of the largest arena chunk
    for sizes, m in (([200], "borrow"), ([100, 250, 65, 256], "borrow"), ([786432], "read"), ([786432, 600000, 1048576], "anchored"),
                     ([200, 70], "anchored")):
        rid += 1
        runs.append({"run": rid, "cfg": {"kind": rng.choice(["enc", "pipeline"]), "shape": rng.choice(shapes[:2]), "total": 48 * mib,
                                         "sizes": sizes, "m": m, "drain": rng.choice(["slices", "bytes", "read"]),
                                         "stride": 16 if sizes[0] < 1000 else 1, "seed": rid}, "ops": []})
    rid += 1
    runs.append({"run": rid, "cfg": {"kind": "mt", "shape": "ones", "total": 2000 if tier == "quick" else 30000, "sizes": [1],
                                     "seed": 1}, "ops": []})
    for big in ([12 * mib] if tier == "quick" else [12 * mib, 96 * mib]):
        rid += 1
        runs.append({"run": rid, "cfg": {"kind": "sreader", "shape": "nostuff", "total": big, "sizes": [1], "big": big,
                                         "seed": 5}, "ops": []})
    # many records that leave no slice behind: empty ones (only looked at), and ones invalid from the first byte
    for log in ("empties", "junk"):
        rid += 1
        runs.append({"run": rid, "cfg": {"kind": "sreader", "shape": "nostuff", "total": 24 * mib, "sizes": [1], "big": 24 * mib,
                                         "log": log, "seed": 5}, "ops": []})
    # the same logs through a hand-rolled reader (pump -> decode_anchored -> finish -> consume(n) -> new_from_iovec)
    for log in ("empties", "junk", "mixed"):
        rid += 1
        runs.append({"run": rid, "cfg": {"kind": "chunkdec", "shape": "nostuff", "total": 24 * mib, "sizes": [rng.choice([3, 4096, 65536])],
                                         "big": 24 * mib, "log": log, "seed": 5}, "ops": []})
    trace = core.drive("footprint", runs, work, "footprint", timeout=7000)
    tv = tlc.validate_trace("FootprintTrace", "FootprintTrace.cfg", trace, os.path.join(work, "tv"), timeout=3000)
    res.add_tv(tv, {r["run"]: r for r in runs}, "footprint", "long streams", crash_props=("C10",))
    rule = ("distinct long-stream runs (object kind x payload shape x input method x drain API x call-size schedule), "
            "%d MiB each (less for FE/FD-dense payloads), plus StreamReader runs skipping an oversized record" % (total // mib))
    for p in ("C10", "C09"):
        res.data["witness"][p] = {"count": len(runs), "rule": rule}
    res.data["samples"]["*"] = [runs[0]["cfg"], runs[-1]["cfg"]]
    os.remove(trace)


def replay_footprint(rep, work):
    trace = core.drive("footprint", [rep["run"]], work, "replay", timeout=7000)
    tv = tlc.validate_trace("FootprintTrace", "FootprintTrace.cfg", trace, os.path.join(work, "tv"))
    return tv["viol"] + core.crash_viols(("C10",))
