"""Thin runner around TLC (tla2tools) with time-outs and output parsing."""
import json
import os
import re
import shutil
import subprocess
import time

from . import tlaval

JAR = "/opt/veriftools/tla/tla2tools.jar"
SPECS = os.path.join(os.path.dirname(os.path.dirname(os.path.abspath(__file__))), "specs")


class ToolError(Exception):
    """TLC crashed, timed out, or produced output we cannot interpret (exit code 2)."""


def run_tlc(module, cfg, workdir, workers=8, timeout=600, dump_dot=None, env=None,
            xmx="6g", xss="64m", deque_queue=False, coverage=False, simulate=None,
            extra=()):
    """Run TLC on specs/<module>.tla with config file `cfg` (absolute path or name in specs/).
    Returns dict(out, rc, generated, distinct, depth, violated, wall_s)."""
    os.makedirs(workdir, exist_ok=True)
    meta = os.path.join(workdir, "md")
    shutil.rmtree(meta, ignore_errors=True)
    if not os.path.isabs(cfg):
        cfg = os.path.join(SPECS, cfg)
    cmd = ["tlc", "-workers", str(workers), "-metadir", meta, "-cleanup", "-noGenerateSpecTE",
           "-config", cfg]
    if coverage:
        cmd += ["-coverage", "1"]
    if dump_dot:
        cmd += ["-dump", "dot,actionlabels", dump_dot]
    if simulate:
        cmd += ["-simulate", simulate]
    cmd += list(extra)
    cmd += [module + ".tla"]
    e = dict(os.environ)
    jto = "-Xss%s -Xmx%s" % (xss, xmx)
    if deque_queue:
        jto += " -Dtlc2.tool.queue.IStateQueue=StateDeque"
    e["JAVA_TOOL_OPTIONS"] = jto
    if env:
        e.update(env)
    t0 = time.time()
    try:
        p = subprocess.run(["timeout", str(int(timeout))] + cmd, cwd=SPECS, env=e,
                           stdout=subprocess.PIPE, stderr=subprocess.STDOUT, text=True)
    finally:
        shutil.rmtree(meta, ignore_errors=True)
    out = p.stdout
    res = {"out": out, "rc": p.returncode, "wall_s": time.time() - t0, "cmd": " ".join(cmd),
           "generated": 0, "distinct": 0, "depth": 0, "violated": None}
    if p.returncode == 124:
        raise ToolError("TLC timed out after %ss: %s" % (timeout, " ".join(cmd)))
    m = re.search(r"(\d+) states generated, (\d+) distinct states found", out)
    if m:
        res["generated"], res["distinct"] = int(m.group(1)), int(m.group(2))
    m = re.search(r"depth of the complete state graph search is (\d+)", out)
    if m:
        res["depth"] = int(m.group(1))
    m = re.search(r"Invariant (\S+) is violated", out)
    if m:
        res["violated"] = m.group(1)
    m = re.search(r"Action property (\S+) is violated", out)
    if m:
        res["violated"] = m.group(1)
    if "Temporal properties were violated" in out:
        res["violated"] = res["violated"] or "temporal"
    if res["violated"] is None and "No error has been found" not in out and simulate is None:
        raise ToolError("TLC failed (rc=%d): %s\n%s" % (p.returncode, " ".join(cmd), out[-3000:]))
    return res


def parse_error_trace(out):
    """Extract the counterexample states of a TLC run as a list of dicts var -> value."""
    states = []
    for blk in re.split(r"\nState \d+: ", out)[1:]:
        lines = blk.split("\n")
        body = []
        for ln in lines[1:]:
            if ln.startswith("/\\ ") or (body and ln.startswith(" ")):
                body.append(ln)
            elif ln.strip() == "" and body:
                break
            elif not body:
                continue
            else:
                break
        st = {}
        cur = None
        for ln in body:
            m = re.match(r"/\\ (\w+) = (.*)$", ln)
            if m:
                cur = m.group(1)
                st[cur] = m.group(2)
            elif cur:
                st[cur] += " " + ln.strip()
        parsed = {}
        for k, v in st.items():
            try:
                parsed[k] = tlaval.parse(v)
            except Exception:
                parsed[k] = v
        states.append({"action": lines[0].strip(), "vars": parsed})
    return states


_TV = re.compile(r'^<<"(TV-[A-Z]+)", (.*)>>$')


def validate_trace(module, cfg, trace_path, workdir, timeout=900, xmx="8g", extra_env=None):
    """Run a trace spec (module/cfg) on the NDJSON file trace_path.
    The trace spec prints <<"TV-VIOL", json>>, <<"TV-DRIFT", json>>, <<"TV-DONE", n>>.
    Returns dict(viol=[...], drift=[...], events=n, wall_s, states)."""
    env = {"TRACE": trace_path}
    if extra_env:
        env.update(extra_env)
    res = run_tlc(module, cfg, workdir, workers=1, timeout=timeout, env=env, xmx=xmx, xss="1g")
    out = res["out"]
    got = {}
    for ln in out.split("\n"):
        m = _TV.match(ln.strip())
        if m:
            tag, val = m.group(1), m.group(2)
            if tag == "TV-DONE":
                got[tag] = int(val)
            else:
                got.setdefault(tag, [])
                v = tlaval.parse(val)
                got[tag] = json.loads(v) if isinstance(v, str) else v
    if "TV-DONE" not in got or "TV-VIOL" not in got:
        raise ToolError("trace spec %s did not consume the whole trace %s:\n%s" %
                        (module, trace_path, out[-3000:]))
    n_lines = sum(1 for _ in open(trace_path))
    if got["TV-DONE"] != n_lines:
        raise ToolError("trace spec consumed %d of %d events" % (got["TV-DONE"], n_lines))
    return {"viol": got["TV-VIOL"], "drift": got.get("TV-DRIFT", []), "events": n_lines,
            "wall_s": res["wall_s"], "states": res["distinct"], "generated": res["generated"]}
