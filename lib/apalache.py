"""Thin runner around apalache-mc for the few symbolic obligations (unbounded integers)."""
import os
import subprocess
import time

from . import tlc

ToolError = tlc.ToolError


def check(module, inv, work, init=None, next_=None, length=0, expect_error=False, timeout=600):
    """apalache-mc check on specs/<module>.tla; returns wall seconds; raises ToolError when the outcome is not the expected one."""
    os.makedirs(work, exist_ok=True)
    out = os.path.join(work, "apa_%s_%s_%d" % (module, inv, length))
    cmd = ["timeout", str(timeout), "apalache-mc", "check", "--length=%d" % length, "--inv=" + inv, "--out-dir=" + out]
    if init:
        cmd.append("--init=" + init)
    if next_:
        cmd.append("--next=" + next_)
    cmd.append(os.path.join(tlc.SPECS, module + ".tla"))
    t0 = time.time()
    p = subprocess.run(cmd, cwd=work, stdout=subprocess.PIPE, stderr=subprocess.STDOUT, text=True)
    txt = p.stdout
    if p.returncode == 124:
        raise ToolError("apalache timed out on %s/%s" % (module, inv))
    ok = "The outcome is: NoError" in txt
    err = "The outcome is: Error" in txt
    if not ok and not err:
        raise ToolError("apalache failed on %s/%s:\n%s" % (module, inv, txt[-2000:]))
    if ok == expect_error:
        raise ToolError("apalache: %s/%s %s (specification error)" % (module, inv, "unexpectedly holds" if ok else "is violated"))
    return round(time.time() - t0, 1)
