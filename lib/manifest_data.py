"""Source of MANIFEST.json (bin/mkmanifest writes it).  One entry per claimed property."""

HOOK_COMMITS = ["ed224dc"]

ENGINES = [
    {"name": "deque", "path": "specs/Deque.tla specs/DequeMC.tla specs/DequeTrace.tla specs/Sorted.tla "
     "specs/SortedMC.tla specs/SortedTrace.tla lib/engines/deque.py harness/src/deque.rs",
     "serves_properties": ["C15", "C16"],
     "kind_free_text": "TLA+ A-spec (reference deque / ordered map) + I-spec (transcribed SlidingDeque, "
     "SortedDeque); TLC design MC (lockstep refinement), edge cover of the I-spec graph replayed on the real "
     "containers, TLC trace validation of every recorded event"},
]

CHECKS = {
    "C15": {
        "engine": "deque",
        "technique": "TLA+ spec + TLC model checking; spec-graph edge-cover replay and TLC trace validation against the real SlidingDeque",
        "text": "TLC exhaustively checks that the transcribed SlidingDeque (I-spec) refines the reference deque "
                "(A-spec) with check_rep and the waste bound as invariants, for all operation sequences over 2 values "
                "up to container length 6 (quick) / 9 (thorough) incl. advance counts beyond the length. Every edge of "
                "that state graph is then executed on the real SlidingDeque over Vec, SmallVec<[u8;2]> and "
                "SmallVec<[u8;4]> (inline->heap spills), plus seeded random runs (lengths up to ~100, From<Container> "
                "starts); every recorded call (return value, full view, len/is_empty/front/back, hook H1's "
                "consumed/container lengths, panics) is validated by TLC against the A-spec. SortedDeque runs (C16) "
                "contribute the waste bound of the inner deque.",
        "design_ref": "DESIGN.md section 6, C15",
        "note": "Bounded: exhaustive only within the MC constants; beyond them seeded random traces. Trusts hook H1 "
                "(verif_rep returns the two private fields), TLC, the harness's recording (no oracle in the harness). "
                "SmallVec's own inline/heap logic is exercised, not modelled. Debug assertions are on in the harness build.",
    },
    "C16": {
        "engine": "deque",
        "technique": "TLA+ spec + TLC model checking; spec-graph edge-cover replay and TLC trace validation against the real SortedDeque",
        "text": "TLC exhaustively checks that the transcribed SortedDeque (tombstones over the transcribed SlidingDeque) "
                "refines an ordered map with append-only insertion, for both item conventions, all operation sequences "
                "over 6 (quick) / 8 (thorough) keys: pushes (valid, non-increasing => must panic, erased => no-op), "
                "find/remove of present/absent/erased keys, pops, clear, every removal order. Every edge of both graphs is "
                "executed on the real SortedDeque ((u8,Option<u8>) pairs and a SortedDequeItem type; Vec and SmallVec), plus "
                "seeded random runs with up to ~250 keys; TLC validates every return value, iter(), first/last/is_empty and "
                "panic/no-panic against the A-spec.",
        "design_ref": "DESIGN.md section 6, C16",
        "note": "Bounded as above. User comparators that reorder on erase are outside the contract and not driven. "
                "Trusts hook H1 only for DRIFT reporting (physical items), not for the verdict.",
    },
}

NOT_BUILT_REASON = ("check not built yet (planned, see DESIGN.md section 12); not claimed until its TLA+ spec "
                    "and conformance harness are committed")
NOT_APPLICABLE = {}
