"""Source of MANIFEST.json (bin/mkmanifest writes it).  One entry per claimed property."""

HOOK_COMMITS = ["ed224dc", "bc3b859", "c46a242", "76a81b6"]

ENGINES = [
    {"name": "nfs", "path": "specs/NfsVoucher.tla specs/NfsTrace.tla lib/engines/nfs.py harness/src/nfs.rs",
     "serves_properties": ["C19"],
     "kind_free_text": "TLA+ state machine of the process-global base time (trusted devices, files, clock) with the A-level action "
     "properties and a transcription of update_base_time / scan / add_trusted_path; TLC design MC; real call sequences on two real "
     "devices, one process per trace; TLC trace validation"},
    {"name": "atomic", "path": "specs/AtomicBaseTime.tla specs/AtomicMC.tla specs/AtomicTrace.tla lib/engines/atomic.py "
     "harness/src/atomic.rs",
     "serves_properties": ["C13", "C18"],
     "kind_free_text": "TLA+ I-spec of AtomicBaseTime at atomic-operation granularity on a view-based release/acquire memory "
     "model with the orderings as constants (extracted from the real code through hook H4); TLC design MC (RA and SC, "
     "liveness under reader-only fairness); the real code executed on a simulated RA memory by replay-stepping (edge cover of a "
     "TLC graph, TLC counterexamples, seeded random schedules x reads-from, parked writers); TLC trace validation (legality + monitors)"},
    {"name": "vt", "path": "specs/VouchedTime.tla specs/VouchedTimeApa.tla specs/VtTrace.tla lib/engines/vt.py harness/src/vt.rs",
     "serves_properties": ["C14"],
     "kind_free_text": "TLA+ window predicate over integers + limb arithmetic; Apalache symbolic check over the full 64-bit range, "
     "TLC exhaustive check of a scaled copy; boundary-biased triples executed on the real VouchedTime; TLC trace validation on limbs"},
    {"name": "tlv", "path": "specs/RoughTlv.tla specs/TlvMC.tla specs/TlvTrace.tla lib/engines/tlv.py harness/src/tlv.rs",
     "serves_properties": ["C11", "C12"],
     "kind_free_text": "pure TLA+ definition of the Roughtime TLV layout (Accepts / Pairs / Encode / size limits in limbs) + "
     "transcription of MessageView's accessors; TLC design MC over all header shapes and small pair lists; the same domains "
     "executed on the real MessageView / MessageWrapper; TLC trace validation"},
    {"name": "readn", "path": "specs/ReadN.tla specs/ReadNMC.tla specs/ReadNInd.tla specs/ReadNTrace.tla lib/engines/readn.py harness/src/readn.rs",
     "serves_properties": ["C17"],
     "kind_free_text": "TLA+ declared result of read_n vs transcribed retry loop (TLC, all scripts within bounds); every "
     "checked configuration executed on the real code through five entry points; TLC trace validation"},
    {"name": "pipe", "path": "specs/IovecPipe.tla specs/OwningIovecImpl.tla specs/OwningIovecMC.tla specs/ArenaSizes.tla specs/PipeTrace.tla specs/FootprintTrace.tla lib/engines/pipe.py "
     "harness/src/pipe.rs harness/src/footprint.rs",
     "serves_properties": ["C03", "C04", "C05", "C20", "C10"],
     "kind_free_text": "TLA+ A-spec of the OwningIovec as a FIFO byte pipe with deferred holes over run-list byte strings, "
     "one world of live objects + held AnchoredSlices; TLC validates after every operation the observation of every live "
     "object, the classification of every exposed slice against the live-chunk registry (hook H2), chunk releases, and the "
     "live counters; long-stream footprint samples are validated by FootprintTrace"},
    {"name": "stream", "path": "specs/StreamFraming.tla specs/StreamMC.tla specs/StreamTrace.tla lib/engines/stream.py "
     "harness/src/stream.rs",
     "serves_properties": ["C08", "C06"],
     "kind_free_text": "TLA+ A-spec of stream tiling and of the valid delimited records (on top of the HCOBS format "
     "definition) + transcription of StreamChunker::pump and StreamReader::next_record_bytes; TLC design MC over all "
     "streams/blocks/judge parameters within bounds; the same space and seeded faulty streams executed on the real code "
     "with scripted readers; TLC trace validation"},
    {"name": "codec", "path": "specs/HcobsFormat.tla specs/HcobsCodec.tla specs/HcobsMC.tla specs/HcobsOnIovec.tla specs/HcobsOnIovecMC.tla specs/HcobsTrace.tla "
     "lib/engines/codec.py harness/src/codec.rs",
     "serves_properties": ["C01", "C02", "C07", "C09"],
     "kind_free_text": "pure TLA+ definition of the HCOBS wire format (RefEncode/RefDecode) + transcription of EncoderState/"
     "DecoderState; TLC design MC over all inputs and segmentations (tiny limits), edge-cover replay through hook H3, TLC "
     "evaluation of the format on bytes recorded from the real Encoder/Decoder at production limits"},
    {"name": "deque", "path": "specs/Deque.tla specs/DequeMC.tla specs/DequeInd.tla specs/DequeTrace.tla specs/Sorted.tla "
     "specs/SortedMC.tla specs/SortedTrace.tla lib/engines/deque.py harness/src/deque.rs",
     "serves_properties": ["C15", "C16"],
     "kind_free_text": "TLA+ A-spec (reference deque / ordered map) + I-spec (transcribed SlidingDeque, "
     "SortedDeque); TLC design MC (lockstep refinement), edge cover of the I-spec graph replayed on the real "
     "containers, TLC trace validation of every recorded event"},
]

CODEC_NOTE = ("Bounded: exhaustive only for inputs <= 6 (encoder, alphabet {FE,FD,x}) / <= 4 (decoder, 8-9 header/boundary "
              "symbols) per tiny limit pair in the quick tier (8 / 5 and four limit pairs in thorough); production limits by "
              "validated samples shaped around the 252 / 64260 / 128268 boundaries. Trusts hook H3 (LimitEncoder/LimitDecoder "
              "call the same EncoderState/DecoderState code with other limits; the production runs go through the real "
              "Encoder/Decoder glue), TLC's evaluation of the format definition, the harness's recording.")

STREAM_NOTE = ("Bounded: exhaustive for streams <= 5 (chunker) / <= 4 (reader) over {FE,FD,0,1,2,'a'} x block sizes 0..4 "
               "in the quick tier (6 / 5 in thorough), sampled beyond (record-rich logs, truncation of a 3-record log at every "
               "byte, corruption, garbage, sentinel runs, FE/FD fragments; block sizes up to the 512 KiB default; short-read / "
               "EINTR schedules; prepared arena fill states for the chunker). Hard I/O errors inside the chunker are outside "
               "the property (covered for read_n by C17). Besides chunk_judge, a family of judges that skip / stop at chosen record offsets "
               "is in the A-spec, the I-spec, the MC and the real runs; judges that consume part of the record are not driven. Also sampled: 140 KB "
               "streams with stuff sequences straddling / at 3000, 4096, 64 KiB, 128 KiB with block sizes of 64 KiB..1 MiB and the 512 KiB "
               "default, logs of valid records whose delimiter lands at 65535 +- 2, records right at the judge's size limit, callers that drop "
               "every chunk at once and flush / replace / grow their arena between two pumps.")

PIPE_NOTE = ("Design level: OwningIovecImpl.tla transcribes OwningIovec / GlobalDeque / ByteArena (slices, anchors, allocation cache, "
             "chunk-size sequence, backref deque, merge rule, consume/consume_by_bytes, push_anchor, clone/take) with tiny constants "
             "(SMALL=1, OPP=2, chunks <<4,8>>, sizes 1/2/3/5) and is model-checked in lockstep against the byte pipe: 1 object x 4 (6) "
             "operations and 2 objects x 4 (5) operations; chunk liveness is derived from holders. Conformance: every edge of the "
             "2-object graph is replayed on the real code with sizes scaled to 64 / 256 / 4096, plus seeded random histories (400 x 60 "
             "operations quick / 6000 x 80 thorough, up to 3 live objects, every producer and consumer method, placeholders filled in "
             "any order, clone/take, arena flush/swap/reserve, anchored pushes, held AnchoredSlices with split/skip/clone) and scripted "
             "corner histories; every event is validated by TLC against the A-spec; each history ends with fill-all, consume-all, "
             "drop-all. Trusts hook H2 (registry calls in Chunk::new/Drop; verif_projection is read-only), debug poison 0xFC, TLC, the "
             "harness recording. The I-spec also covers swap_arena, short reads (partial release), ensure / flush; ArenaSizes.tla checks the "
             "transcribed find_hint_size with the real size sequence. Wrong-size backfills (documented panic, placeholder stays pending), "
             "clones taken while a placeholder is pending, clone_from onto a live object, Read::read_to_end, storms of up to 12 placeholders of "
             "1..300 bytes and anchor interleavings K / K' / K are driven too. The A-spec remembers per object how many leading bytes were read "
             "and right at the last observation: if they differ later, their memory was handed out again (C05, overlap clause). The structural "
             "invariants of the I-spec (anchor counts, backref targets, counters) are evaluated on the real H2 projection after every operation "
             "and reported as DRIFT. Address reuse "
             "by the allocator can hide a dangling slice from the registry classification (content comparison still applies). A process "
             "death of the harness (abort on an unsafe-precondition check, segfault) in a run is recorded as a violation of C05.")

TLV_NOTE = ("Bounded: all byte strings of <= 4 (5) words over 10 word values (0,1,2,3,4,8,12,65536,2^29,2^32-1) with 0..3 trailing bytes; "
            "all lists of <= 3 (4) pairs over 3 tags x 4 value lengths; beyond that random strings / nested messages / long lists. "
            "Words are compared as 16-bit halves and lengths as 20-bit limbs because TLC integers are 32-bit. The pair-count limit "
            "(> 2^31 pairs) is not exercised. Values that only report a length (never written) are used for the i32::MAX boundaries.")

ATOMIC_NOTE = ("Bounded: thread programs of 2-4 threads with <= 4 calls each; the design MC is exhaustive per program (RA and SC), the "
               "exploration of the real code is an edge cover of one MC graph plus sampled schedules x reads-from choices. Memory "
               "model: stores append to modification order (exact while writers are serialised by the lock), no out-of-thin-air / "
               "load-buffering for relaxed accesses, no sequence wrap-around. Trusts hook H4 (stand-ins pass through to std when "
               "no scheduler is registered), the harness's memory simulation (every recorded execution is re-checked for legality "
               "by TLC against the TLA+ memory model; an illegal one is a tool error), TLC.")

CHECKS = {
    "C19": {
        "engine": "nfs",
        "technique": "TLA+ spec + TLC model checking of action properties; TLC trace validation of real call sequences on two real devices",
        "text": "NfsVoucher.tla states the property as action properties (Monotone, OnlyTrustedEvidence, UntrustedIgnored, ReturnsVouched) over "
                "trusted devices / base / files / clock and transcribes update_base_time (blocking / touch / extra_device), the scan loop and "
                "add_trusted_path; TLC checks them on 2 devices x 3 files x 3-4 ticks incl. re-pointed paths and lost try_update races (the "
                "variant that skips the device check is rejected). Real module: 40 (quick) / 400 (thorough) random call sequences + 4 scripted "
                "ones (one with 40 concurrent callers forcing refreshes for 4 s / 30 s: per thread the base time never decreases and is never older "
                "than what its own refresh reported), each in its own process, on files of the work directory and of tmpfs /dev/shm created milliseconds apart (touches, old "
                "mtimes, symlinks re-pointed across devices, trust established early/late, `now` on both sides of the refresh threshold); after "
                "every call TLC checks the base time and the returned pair against the change-times and devices the harness itself observed, and "
                "that every returned pair passes VouchedTime's voucher check.",
        "design_ref": "DESIGN.md section 6, C19",
        "note": "Real file system and real time: trace validation cannot dictate ctimes (no spec->impl replay); the spec only relates values "
                "the harness observed, so coarse timestamps cannot cause false alarms. Times are logged relative to the start of the run "
                "(32-bit TLC integers). should_refresh_base_time is policy, outside the property: the trace spec states it (age > leeway and a "
                "trusted path exists) and reports deviations as DRIFT only. The concurrent history runs on real threads: its monitors cannot fire "
                "on correct code, but what it detects depends on the schedule. If /dev/shm is not a second device the untrusted-device "
                "cases degrade and the evidence says so.",
    },
    "C13": {
        "engine": "atomic",
        "technique": "TLA+ spec on a release/acquire memory model + TLC model checking with orderings extracted from the code; real code replay-stepped on simulated memory, TLC trace validation",
        "text": "AtomicBaseTime.tla transcribes snapshot / update / try_update one action per atomic operation over a view-based RA memory "
                "model; the orderings are constants taken from the real code by a probe through hook H4. TLC checks NoTorn, per-thread "
                "monotonicity, older-ignored, recency (SC and own-thread) for several thread programs under RA and SC, and that weakening "
                "single orderings breaks NoTorn. The real code is then executed on a simulated RA memory at atomic-step granularity: every "
                "edge (thread, reads-from) of an MC graph, any TLC counterexample, and thousands of seeded random schedules x reads-from "
                "choices incl. stale reads; TLC validates each execution for legality and checks the monitors on the real return values "
                "(the real voucher check panicking on a torn pair is a violation; an update() that held the lock and did not commit must not have been "
                "newer than the base time current then, also after another writer died on a mismatched pair). An enumerated grid of writer suspension points x "
                "solo reader / try_update scripts with extreme reads-from choices adds the quantifier of C18 to the same traces.",
        "design_ref": "DESIGN.md section 6, C13",
        "note": ATOMIC_NOTE,
    },
    "C18": {
        "engine": "atomic",
        "technique": "TLC model checking incl. liveness under reader-only fairness; real code replay-stepped with writers parked at every explored suspension point, TLC trace validation",
        "text": "Design: in the I-spec a snapshot has no lock action, try_update decides in its first step, SnapshotBound bounds a snapshot's "
                "loads by the completed sequence stores, and TLC proves reader termination when only reader steps are fair (writers may "
                "stall forever holding the lock). Real code: in about a third of the explored executions the writers are parked after a "
                "random number of steps (lock held or not, poisoned or not after a writer died mid-update) and the readers / try_update "
                "callers are run alone; TLC checks that no snapshot ever performs a lock operation, try_update never issues a blocking "
                "lock and returns after one step when the lock is held, nothing waits for a suspended holder, and a snapshot's loads are "
                "bounded by the completed writes.",
        "design_ref": "DESIGN.md section 6, C18",
        "note": ATOMIC_NOTE + " nfs_voucher::get_base_time_unlocked is a thin wrapper over snapshot(); it is not parked, but the nfs engine "
                "(also run by this check) calls it with `now` values up to a day ahead and reports it under C18 if it ever changes the base time "
                "(i.e. goes through the blocking update path).",
    },
    "C14": {
        "engine": "vt",
        "technique": "TLA+ spec checked symbolically by Apalache over the full 64-bit range (and by TLC on a scaled copy); TLC trace validation of real VouchedTime verdicts",
        "text": "VouchedTime.tla states the property over mathematical integers (SpecAccept) and transcribes the code's window test; "
                "Apalache proves, for all local times 0..PrimitiveDateTime::MAX and all 64-bit base times, that the transcription equals "
                "the property, that the 30-bit-limb predicate used for trace validation equals it too, and finds the wrap-around witness "
                "for the pre-fix formula (finding F4). About 3000 (quick) / 300000 (thorough) boundary-biased triples - both window edges "
                "+-2 at 20 base anchors incl. 0, 2^63, 2^64-k, sub-millisecond parts, the wrap region, local times before the epoch by "
                "less than 1 ms (finding F5), calendar limits, vouchers for another value / from other parameters / with a flipped bit - "
                "are run through the real new / check / get_local_time / now; TLC decides each recorded verdict with the limb predicate.",
        "design_ref": "DESIGN.md section 6, C14",
        "note": "Pure arithmetic: the weakest fit for a state-machine technique (DESIGN.md section 7); the unbounded part is Apalache's "
                "symbolic check (SMT), the binding is sampled. The window is decided on floor(local ms), the epoch test on the exact "
                "local time. Trusts raffle's voucher check (voucher kinds are fixed by the generator), Apalache/Z3, TLC.",
    },
    "C11": {
        "engine": "tlv",
        "technique": "TLA+ layout definition + TLC model checking of Encode lemmas; enumerated pair lists executed on the real MessageWrapper and TLC-validated",
        "text": "RoughTlv.tla defines Encode (count, N-1 cumulative offsets, stably sorted tags, values), EncLen and the i32::MAX limits; TLC "
                "checks Accepts(Encode(p)), Pairs(Encode(p)) = SortStable(p) and |Encode(p)| = EncLen(p) for all small lists. Every list of "
                "<= 3 (4) pairs x constructors new / new_from_slice / new_from_sorted x Cow borrowed/owned, nested messages, 21..100-pair "
                "lists with ties, through OwningIovec, a dyn ZeroCopySink and an HCOBS Encoder->Decoder, is executed; TLC compares emitted "
                "bytes, rough_tlv_len, the constructor verdict (only new_from_sorted rejects, exactly decreasing tags), the pairs read back "
                "through iteration / indexing / lookup, and the size-limit verdicts at i32::MAX-3..+3 for 1..4 pairs. Lists over wide tags "
                "(255, 256, 65535, 65536, 2^24, 2^31-1: numeric vs byte-wise order) go through all three constructors.",
        "design_ref": "DESIGN.md section 6, C11/C12",
        "note": TLV_NOTE,
    },
    "C12": {
        "engine": "tlv",
        "technique": "TLA+ layout definition + TLC model checking of transcribed accessors; TLC-enumerated byte strings executed on the real MessageView and TLC-validated",
        "text": "Accepts(bytes) and Pairs/Value/Lookups are pure TLA+ definitions; TLC checks the transcribed get_value/get/iter against "
                "them on every byte string of the header-shape domain (finding F3 is the counterexample <<0,0,0,0>> with the pre-fix "
                "transcription). The same domain plus random / truncated / corrupted strings is fed to the real MessageView::new; for "
                "every string TLC checks the verdict, no panic, and on accepted messages: len/is_empty, tags, iteration = layout, values "
                "tile the payload, get/get_value(i) for i < N agree and for N..N+2 and usize::MAX yield nothing, find/find_tag for 5 probe "
                "tags and every present tag return a value stored under exactly that tag, tags_match_exactly, re-encoding.",
        "design_ref": "DESIGN.md section 6, C11/C12",
        "note": TLV_NOTE,
    },
    "C17": {
        "engine": "readn",
        "technique": "TLA+ spec + TLC model checking of the transcribed retry loop; every enumerated configuration replayed and TLC-validated on five entry points",
        "text": "ReadN.tla declares the result of read_n from the reader script (which call ends the loop, requested sizes, returned bytes, "
                "Ok/Err and which error) and transcribes the retry loop; TLC checks they agree for all scripts up to length 4 (5) over "
                "{deliver 1,2,3, EOF, EINTR, two hard errors} x counts 0..4 (5) x attempts 1..5 (6). Every one of those configurations is "
                "executed on ByteArena::read_n (fresh, empty-tail, 1-byte-tail, count-1, count tails, maximal chunk) and on Encoder/Decoder "
                "read_n, encode_read, decode_read; TLC validates the recorded reader calls, results, returned bytes, and that the codec's "
                "later output is the format's encoding/decoding of exactly the bytes read; plus random longer scripts and counts at the "
                "4096 / 1 MiB / 2 MiB chunk boundaries on fresh, young, nearly full and maximal arenas with readers that deliver, fail at once, "
                "exhaust the attempts or hit EOF; the second hard error is a different ErrorKind from run to run; half of the encoder runs encode "
                "'a FE' before and 'FD z' after the read (a read that delivers nothing between a held-back FE and an FD). ReadNInd.tla discharges the byte accounting as an inductive invariant with Apalache "
                "(unbounded counts).",
        "design_ref": "DESIGN.md section 6, C17",
        "note": "Bounded enumeration as stated; larger counts sampled. Readers that deliver more than requested or return 0 before "
                "the end are outside std::io::Read's contract. Trusts TLC, the scripted reader of the harness.",
    },
    "C03": {
        "engine": "pipe",
        "technique": "TLA+ A-spec (byte pipe with holes over run lists) + TLC trace validation of every event of random/scripted OwningIovec histories",
        "text": "IovecPipe.tla models each live OwningIovec as the sequence of unconsumed bytes (with hole cells for pending placeholders); "
                "every producer operation appends / fills / moves / copies, every consumer operation removes a prefix. After every "
                "operation of every recorded history TLC checks for every live object: total_size = appended - consumed, len()=0 iff empty, "
                "no empty exposed slice, slice lengths add up, stable bytes = the model's prefix (content, order, backfilled values), "
                "stable_prefix / iteration / iovs / front / flatten / flatten_into agree, every consume / advance_slices / pop_front / "
                "Read returns exactly what it removed and hands out exactly the model's bytes.",
        "design_ref": "DESIGN.md section 6, C03",
        "note": PIPE_NOTE,
    },
    "C04": {
        "engine": "pipe",
        "technique": "TLA+ A-spec with hole cells + TLC trace validation (stable boundary, ok-flags, fill order) of OwningIovec histories incl. backpatch storms",
        "text": "Same traces as C03, with the constraints of C04: the stable view never extends past the earliest pending hole, iovs / "
                "flatten / has_pending_backrefs report success exactly when no hole is pending, with none pending every buffered byte is "
                "consumable with the fill values in place, consumption never crosses a hole, no panic in register_patch/backfill_or_panic "
                "for any fill order (finding F2 is such a panic). A 'storm' profile keeps up to 5 holes in flight with out-of-order fills, "
                "byte-wise consumption right up to a hole, and registration into merged slices.",
        "design_ref": "DESIGN.md section 6, C04",
        "note": PIPE_NOTE,
    },
    "C05": {
        "engine": "pipe",
        "technique": "live-chunk registry (hook H2) classification validated by TLC against the A-spec world; codec runs with arena flush probes",
        "text": "Before reading it, the harness classifies every slice reachable through the read side of every live OwningIovec, every "
                "held AnchoredSlice and every codec consumer as inside a live registered chunk / inside a lent buffer / dangling, and "
                "logs every chunk creation and release together with the number of buffered slices or AnchoredSlices still pointing into a "
                "released chunk. TLC checks: nothing is ever dangling, nothing is released while reachable, held AnchoredSlices keep their "
                "bytes through split/skip/clone, readable bytes equal the model (a stale read shows as 0xFC poison). Codec runs add arena "
                "flushes after decode errors and at random points. A process death counts as a violation.",
        "design_ref": "DESIGN.md section 6, C05",
        "note": PIPE_NOTE,
    },
    "C20": {
        "engine": "pipe",
        "technique": "TLA+ A-spec world of several objects + TLC trace validation of all objects after every operation (independence)",
        "text": "Clone copies the model state, take moves it (including pending holes) and leaves an empty object. Because every event carries "
                "the observation of every live object, TLC checks after every later operation on either side that the other one is "
                "unchanged and valid (contents, flags, liveness of its slices), including pushes that merge in place, placeholder "
                "registration and fill on either side, consumption, clear, arena swaps and dropping either side first.",
        "design_ref": "DESIGN.md section 6, C20",
        "note": PIPE_NOTE,
    },
    "C10": {
        "engine": "pipe",
        "technique": "TLC trace validation: live-counter monitor at the end of every run of every arena-touching engine + footprint/growth monitor on long streams",
        "text": "No-leak: every run of the pipe, codec and stream engines ends by dropping every object; TLC checks the process-wide live "
                "chunk/byte counters return to their value at the start of the run. Bounded footprint: 64 MiB (quick) / 512 MiB (thorough) "
                "per run are streamed through the real Encoder and Encoder->Decoder pipeline (4 payload shapes x copy/borrow/read input x "
                "3 drain APIs x call-size schedules incl. 1-byte, 300000-byte and 3 MiB calls, input from foreign arenas) and a StreamReader skipping "
                "a 12 / 96 MiB record or reading 24 MiB of empty / invalid records; an 8-thread run checks the counters under concurrent drops; "
                "TLC checks live bytes <= 8 MiB per codec object at every sample and that the second half of the run does not exceed the "
                "first half by more than 1 MiB (a leak grows linearly).",
        "design_ref": "DESIGN.md section 6, C10",
        "note": PIPE_NOTE + " The footprint bound is validated on sampled schedules, not proved.",
    },
    "C08": {
        "engine": "stream",
        "technique": "TLA+ spec + TLC model checking of the transcribed chunker; enumerated-configuration replay and TLC trace validation of real pump() chunks",
        "text": "StreamFraming.tla states tiling as a TLA+ predicate (chunks concatenate to the stream at their positions, offsets are "
                "absolute ends, Data non-empty / stuff-free / no FE|FD straddle, Eof last and only at the real end). TLC checks the "
                "transcribed pump against it for every stream within bounds and block sizes 0..4 (finding F1 is the counterexample "
                "with the pre-fix constant). The same configuration space and seeded faulty streams are pumped through the real "
                "StreamChunker with scripted readers and prepared arena states; TLC validates every recorded chunk sequence.",
        "design_ref": "DESIGN.md section 6, C08/C06",
        "note": STREAM_NOTE,
    },
    "C06": {
        "engine": "stream",
        "technique": "TLA+ spec + TLC model checking of the transcribed reader; enumerated-configuration replay and TLC trace validation of real StreamReader records",
        "text": "Records(stream, maxSize, limit) is defined in TLA+ on top of the pure HCOBS format (maximal stuff-free segments, "
                "well-formed, size limit, stop at the limit offset). TLC checks the transcribed next_record_bytes loop (with the "
                "transcribed decoder and chunker) returns exactly Records for every stream/block/judge parameter within bounds; "
                "the same space plus record-rich logs truncated at every byte, corrupted, with extra delimiters, are read through "
                "the real StreamReader under short-read/EINTR schedules; TLC compares the returned (bytes, range) list with Records, "
                "panics and errors are violations, last_sentinel_offset is checked for monotonicity and for pointing at FE FD. A family of "
                "judges that skip or stop at chosen record offsets is part of the A-spec, the MC and the real runs.",
        "design_ref": "DESIGN.md section 6, C08/C06",
        "note": STREAM_NOTE,
    },
    "C01": {
        "engine": "codec",
        "technique": "TLA+ format spec + TLC model checking of the transcribed codec; edge-cover replay (hook H3) and TLC trace validation of real Encoder->Decoder round trips",
        "text": "HcobsFormat.tla defines the wire format as pure RefEncode/RefDecode; TLC checks RefDecode(RefEncode(s)) = s and that the "
                "transcribed encoder state machine equals RefEncode for all inputs and all segmentations within bounds. Every edge of those "
                "graphs is replayed on the real state machines through hook H3 as Encoder->Decoder round trips (all four input methods, random "
                "drains), plus seeded random tiny-limit round trips and production-limit round trips (real Encoder/Decoder) with FE/FD planted "
                "around every chunk boundary; TLC validates each recorded run: decoder result = encoder input, and RefDecode(encoder output) = input.",
        "design_ref": "DESIGN.md section 6, C01/C02/C07",
        "note": CODEC_NOTE,
    },
    "C02": {
        "engine": "codec",
        "technique": "TLA+ format spec + TLC model checking; TLC trace validation of real encoder outputs (stuff-free, split-independent, bounded)",
        "text": "TLC checks on the transcribed encoder: output = RefEncode(input) for every segmentation (=> a function of the input only), no FE FD, "
                "length <= len+1+2*ceil(len/L2), for all inputs within bounds. On the real code (H3 edge cover, random tiny-limit runs, production "
                "runs) TLC validates for every recorded run: complete output (drained ++ finish) has no FE FD anywhere, satisfies the bound with the "
                "literal constant 64008, and equals the output of every other run with the same input (different segmentation / method / drains; every random "
                "tiny-limit input is encoded a second time with another segmentation; the replay of such a violation re-executes the whole group).",
        "design_ref": "DESIGN.md section 6, C01/C02/C07",
        "note": CODEC_NOTE,
    },
    "C07": {
        "engine": "codec",
        "technique": "TLA+ format spec evaluated by TLC on recorded bytes (literal 252/64008/253); TLC model checking of transcribed encoder and decoder",
        "text": "The canonical format is a TLA+ definition independent of the code's constants. TLC checks the transcribed encoder = RefEncode and the "
                "transcribed decoder = RefDecode (verdict and bytes) for all strings and segmentations within bounds; on the real code TLC evaluates "
                "RefEncode/RefDecode on every recorded encoder output and every decoder input (valid, truncated at every position, corrupted headers, "
                "alias encodings that only a skipped header check would accept, garbage), byte-at-a-time / one call / random pieces, and compares "
                "verdict and bytes; panics are violations.",
        "design_ref": "DESIGN.md section 6, C01/C02/C07",
        "note": CODEC_NOTE,
    },
    "C09": {
        "engine": "codec",
        "technique": "TLC trace validation of streaming observations (prefix/lag monitors in TLA+); TLC invariant on the transcribed encoder",
        "text": "Design: HcobsOnIovec.tla composes the transcribed encoder with the transcribed OwningIovec (the chunk header is a real "
                "placeholder, a consumer drains the stable prefix at any moment in slices or bytes): TLC checks for all inputs <= 6 (8), "
                "segmentations, copy/borrow and drain schedules that drained++consumable is a hole-free prefix of RefEncode, exactly one "
                "placeholder is pending while open, and lag <= largest chunk + L2 + 2; HcobsMC additionally checks the stable part is a prefix of "
                "RefEncode of every extension. Real code: after every feed and drain of every codec run the trace records total_size, consumable bytes "
                "(content too for small runs), and for each drain (consume / advance_slices / Read with amounts below, at and far above what is "
                "consumable) the bytes removed and the reported count; TLC checks: observed bytes never change and are a prefix of drained++finish, "
                "each drain removes exactly what it reports, lag <= 1 MiB + L2 + 2 for encoders and 0 (no pending backpatch) for decoders, finish leaves "
                "nothing pending, and when anything was drained, drained ++ finish is the complete output. For short inputs the decoder must have made "
                "consumable exactly what the input fed so far determines (the transcribed decoder's output): fewer bytes is a lag. Also driven: codecs built on a "
                "pre-populated OwningIovec (new_from_iovec: earlier contents are kept), Decoder::take_iovec mid-stream, input read ahead of the "
                "codec, input from a producer arena that is dropped later. For short inputs the transcribed state machines (HcobsCodec.tla) run as a "
                "shadow on the same pieces; disagreements on appended / consumable counts or on the reject point are reported as DRIFT.",
        "design_ref": "DESIGN.md section 6, C09",
        "note": CODEC_NOTE + " The lag bound over unbounded stream lengths is checked on streams up to ~130 KB here and on long streams by the C10 streaming part.",
    },
    "C15": {
        "engine": "deque",
        "technique": "TLA+ spec + TLC model checking; spec-graph edge-cover replay and TLC trace validation against the real SlidingDeque",
        "text": "TLC exhaustively checks that the transcribed SlidingDeque (I-spec) refines the reference deque "
                "(A-spec) with check_rep and the waste bound as invariants, for all operation sequences over 2 values "
                "up to container length 6 (quick) / 9 (thorough) incl. advance counts beyond the length. Every edge of "
                "that state graph is then executed on the real SlidingDeque over Vec, SmallVec<[u8;2]> and "
                "SmallVec<[u8;4]> (inline->heap spills), plus seeded random runs (lengths up to ~100, From<Container> "
                "starts); every recorded call (return value, full view, len/is_empty/front/back, hook H1's "
                "consumed/container lengths, panics) is validated by TLC against the A-spec. SortedDeque runs (C16) "
                "contribute the waste bound of the inner deque. DequeInd.tla carries the waste bound as an inductive invariant discharged "
                "by Apalache for unbounded sizes (negative control: pop_back without maybe_slide, finding F2, breaks it).",
        "design_ref": "DESIGN.md section 6, C15",
        "note": "Bounded: exhaustive only within the MC constants; beyond them seeded random traces. Trusts hook H1 "
                "(verif_rep returns the two private fields), TLC, the harness's recording (no oracle in the harness). "
                "SmallVec's own inline/heap logic is exercised, not modelled. Debug assertions are on in the harness build.",
    },
    "C16": {
        "engine": "deque",
        "technique": "TLA+ spec + TLC model checking; spec-graph edge-cover replay and TLC trace validation against the real SortedDeque",
        "text": "TLC exhaustively checks that the transcribed SortedDeque (tombstones over the transcribed SlidingDeque) "
                "refines an ordered map with append-only insertion, for both item conventions, all operation sequences "
                "over 6 (quick) / 8 (thorough) keys: pushes (valid, non-increasing => must panic, erased => no-op), "
                "find/remove of present/absent/erased keys, pops, clear, every removal order. Every edge of both graphs is "
                "executed on the real SortedDeque ((u8,Option<u8>) pairs and a SortedDequeItem type; Vec and SmallVec), plus "
                "seeded random runs with up to ~250 keys; TLC validates every return value, iter(), first/last/is_empty and "
                "panic/no-panic against the A-spec.",
        "design_ref": "DESIGN.md section 6, C16",
        "note": "Bounded as above. User comparators that reorder on erase are outside the contract and not driven. "
                "Trusts hook H1 only for DRIFT reporting (physical items), not for the verdict.",
    },
}

NOT_BUILT_REASON = ("check not built yet (planned, see DESIGN.md section 12); not claimed until its TLA+ spec "
                    "and conformance harness are committed")
NOT_APPLICABLE = {}
