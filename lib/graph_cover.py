"""Edge cover of a TLC state graph dump (-dump dot,actionlabels).

parse_dot(path) -> Graph(init, edges[(src, dst, label)], node_labels)
edge_cover(graph, max_run) -> list of runs; a run is a list of edge indices forming a path
from the initial state.  Every edge of the graph appears in at least one run.

Strategy: walk greedily; from the current state take an uncovered out-edge if there is
one, otherwise go (BFS) to the nearest state that has one; start a new run from the initial
state when nothing uncovered is reachable or the run is long enough.
"""
import re
from collections import defaultdict, deque

_EDGE = re.compile(r'^(-?\d+) -> (-?\d+) \[label="(.*)",color="[a-z]+",fontcolor="[a-z]+"\];$')
_NODE = re.compile(r'^(-?\d+) \[label="((?:[^"\\]|\\.)*)"(,style = filled)?')


class Graph:
    def __init__(self):
        self.inits = []
        self.edges = []          # (src, dst, label)
        self.out = defaultdict(list)   # src -> [edge index]
        self.labels = {}


def parse_dot(path, keep_node_labels=False):
    g = Graph()
    seen = set()
    with open(path) as f:
        for line in f:
            line = line.rstrip("\n")
            m = _EDGE.match(line)
            if m:
                src, dst, lab = int(m.group(1)), int(m.group(2)), m.group(3)
                key = (src, dst, lab)
                if key in seen:
                    continue
                seen.add(key)
                g.out[src].append(len(g.edges))
                g.edges.append(key)
                continue
            m = _NODE.match(line)
            if m:
                nid = int(m.group(1))
                if m.group(3):
                    g.inits.append(nid)
                if keep_node_labels:
                    g.labels[nid] = m.group(2)
    return g


def edge_cover(g, max_run=300, init=None):
    if init is None:
        init = g.inits[0]
    covered = [False] * len(g.edges)
    remaining = defaultdict(list)          # node -> uncovered out-edges (stack)
    for i, (s, d, _) in enumerate(g.edges):
        remaining[s].append(i)
    n_uncovered = len(g.edges)

    def path_to_uncovered(start):
        """BFS from start to the nearest node with an uncovered out-edge."""
        if remaining.get(start):
            return []
        prev = {start: None}
        q = deque([start])
        while q:
            u = q.popleft()
            for ei in g.out.get(u, ()):
                v = g.edges[ei][1]
                if v in prev:
                    continue
                prev[v] = (u, ei)
                if remaining.get(v):
                    path = []
                    x = v
                    while prev[x] is not None:
                        u2, e2 = prev[x]
                        path.append(e2)
                        x = u2
                    path.reverse()
                    return path
                q.append(v)
        return None

    runs = []
    while n_uncovered > 0:
        cur = init
        run = []
        while n_uncovered > 0 and len(run) < max_run:
            if remaining.get(cur):
                ei = remaining[cur].pop()
                if covered[ei]:
                    continue
                covered[ei] = True
                n_uncovered -= 1
                run.append(ei)
                cur = g.edges[ei][1]
                continue
            p = path_to_uncovered(cur)
            if p is None:
                break
            if len(run) + len(p) >= max_run and run:
                break
            run.extend(p)
            for ei in p:
                cur = g.edges[ei][1]
                if not covered[ei]:
                    covered[ei] = True
                    n_uncovered -= 1
        if not run:
            # uncovered edges exist but are unreachable from init: cannot happen for a TLC dump
            raise RuntimeError("unreachable uncovered edges: %d" % n_uncovered)
        runs.append(run)
    return runs
