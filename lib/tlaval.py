"""Parser for TLA+ values as printed by TLC (in dot labels, PrintT output, error traces).

Records -> dict, sequences/tuples -> list, sets -> list (sorted as printed), functions
(a :> b @@ c :> d) -> dict, strings -> str, integers -> int, TRUE/FALSE -> bool.
"""


class ParseError(Exception):
    pass


def parse(text):
    p = _P(text)
    v = p.value()
    p.ws()
    if p.i != len(p.s):
        raise ParseError("trailing input at %d: %r" % (p.i, p.s[p.i:p.i + 40]))
    return v


class _P:
    def __init__(self, s):
        self.s = s
        self.i = 0

    def ws(self):
        while self.i < len(self.s) and self.s[self.i] in " \t\r\n":
            self.i += 1

    def peek(self, k=1):
        return self.s[self.i:self.i + k]

    def expect(self, tok):
        self.ws()
        if self.s[self.i:self.i + len(tok)] != tok:
            raise ParseError("expected %r at %d: %r" % (tok, self.i, self.s[self.i:self.i + 40]))
        self.i += len(tok)

    def value(self):
        self.ws()
        c = self.peek()
        if c == '"':
            return self.string()
        if self.peek(2) == "<<":
            self.i += 2
            return self.items(">>")
        if c == "{":
            self.i += 1
            return self.items("}")
        if c == "[":
            return self.record()
        if c == "(":
            return self.function()
        if c == "-" or c.isdigit():
            j = self.i + 1
            while j < len(self.s) and self.s[j].isdigit():
                j += 1
            v = int(self.s[self.i:j])
            self.i = j
            return v
        if self.s.startswith("TRUE", self.i):
            self.i += 4
            return True
        if self.s.startswith("FALSE", self.i):
            self.i += 5
            return False
        # model value / identifier
        j = self.i
        while j < len(self.s) and (self.s[j].isalnum() or self.s[j] == "_"):
            j += 1
        if j == self.i:
            raise ParseError("unexpected %r at %d" % (self.s[self.i:self.i + 20], self.i))
        v = self.s[self.i:j]
        self.i = j
        return v

    def string(self):
        assert self.s[self.i] == '"'
        j = self.i + 1
        out = []
        while self.s[j] != '"':
            if self.s[j] == "\\":
                j += 1
            out.append(self.s[j])
            j += 1
        self.i = j + 1
        return "".join(out)

    def items(self, close):
        out = []
        self.ws()
        if self.s.startswith(close, self.i):
            self.i += len(close)
            return out
        while True:
            out.append(self.value())
            self.ws()
            if self.s.startswith(close, self.i):
                self.i += len(close)
                return out
            self.expect(",")

    def record(self):
        self.expect("[")
        out = {}
        self.ws()
        if self.peek() == "]":
            self.i += 1
            return out
        while True:
            self.ws()
            j = self.i
            while self.s[j].isalnum() or self.s[j] == "_":
                j += 1
            key = self.s[self.i:j]
            self.i = j
            self.expect("|->")
            out[key] = self.value()
            self.ws()
            if self.peek() == "]":
                self.i += 1
                return out
            self.expect(",")

    def function(self):
        self.expect("(")
        out = {}
        while True:
            k = self.value()
            self.expect(":>")
            v = self.value()
            out[k if not isinstance(k, list) else tuple(k)] = v
            self.ws()
            if self.peek() == ")":
                self.i += 1
                return out
            self.expect("@@")


def unescape_dot(label):
    """Undo the escaping TLC applies to dot labels."""
    return label.replace('\\"', '"').replace("\\\\", "\\").replace("\\n", "\n")
