"""Orchestration shared by all engines: harness build, caching, replays, evidence."""
import hashlib
import json
import os
import shutil
import subprocess
import sys
import time

from . import tlc, graph_cover, tlaval

VERIF = os.path.dirname(os.path.dirname(os.path.abspath(__file__)))
REPO = "/repo"
WORK = os.path.join(VERIF, "work")
HARNESS = os.path.join(VERIF, "harness")
HARNESS_BIN = os.path.join(HARNESS, "target", "debug", "wp_harness")
ToolError = tlc.ToolError


def log(*a):
    print(*a, file=sys.stderr, flush=True)


def repo_hash():
    h = hashlib.sha256()
    for root, dirs, files in os.walk(REPO):
        dirs[:] = sorted(d for d in dirs if d not in ("target", ".git"))
        for fn in sorted(files):
            if fn.endswith((".rs", ".toml", ".lock")):
                p = os.path.join(root, fn)
                h.update(p.encode())
                with open(p, "rb") as f:
                    h.update(f.read())
    # the machinery itself is part of the key
    for sub in ("specs", "lib", "lib/engines", "harness/src", "bin"):
        d = os.path.join(VERIF, sub)
        for fn in sorted(os.listdir(d)):
            p = os.path.join(d, fn)
            if os.path.isfile(p) and not fn.endswith(".pyc"):
                h.update(p.encode())
                with open(p, "rb") as f:
                    h.update(f.read())
    return h.hexdigest()[:20]


def build_harness():
    """cargo build of the harness against /repo's current working tree (hooks on)."""
    lock = os.path.join(HARNESS, "Cargo.lock")
    t0 = time.time()
    env = dict(os.environ, CARGO_NET_OFFLINE="true")
    p = subprocess.run(["cargo", "build", "--offline", "--quiet"], cwd=HARNESS, env=env,
                       stdout=subprocess.PIPE, stderr=subprocess.STDOUT, text=True)
    if p.returncode != 0:
        raise ToolError("harness build failed (hooks on):\n" + p.stdout[-4000:])
    return time.time() - t0


CRASHES = []      # process deaths of the harness (abort, segfault, time-out inside one run): data, not tool errors


def drive(engine, runs, workdir, tag, timeout=1800):
    """Write runs (list of dict run/cfg/ops) to an ops file, execute them on the real code,
    return the path of the recorded NDJSON trace.  If the code under test kills the harness
    process (non-unwinding panic, abort, segfault, hang), the run that did it is recorded in
    CRASHES and the remaining runs are executed by a fresh process."""
    os.makedirs(workdir, exist_ok=True)
    trace = os.path.join(workdir, tag + ".trace.ndjson")
    part = os.path.join(workdir, tag + ".part.ndjson")
    ops = os.path.join(workdir, tag + ".ops.ndjson")
    open(trace, "w").close()
    todo = list(runs)
    deaths = 0
    while todo:
        with open(ops, "w") as f:
            for r in todo:
                f.write(json.dumps(r, separators=(",", ":")) + "\n")
        p = subprocess.run(["timeout", str(timeout), HARNESS_BIN, engine, ops, part],
                           stdout=subprocess.PIPE, stderr=subprocess.PIPE, text=True)
        with open(part) as src, open(trace, "a") as dst:
            last_run = None
            for line in src:
                if not line.endswith("\n"):
                    break                      # torn last line of a dead process
                dst.write(line)
                if line.startswith('{"ev":"reset"') or '"ev":"reset"' in line[:200]:
                    try:
                        last_run = json.loads(line)["run"]
                    except Exception:
                        pass
        os.remove(part)
        if p.returncode == 0:
            break
        if p.returncode == 2 or last_run is None:
            raise ToolError("harness %s failed rc=%d: %s" % (engine, p.returncode, p.stderr[-2000:]))
        deaths += 1
        msgs = [ln for ln in p.stderr.split("\n") if ln.strip()]
        msg = " | ".join(msgs[-3:])[:400].replace('"', "'")
        CRASHES.append({"run": last_run, "rc": p.returncode,
                        "what": "the process died in this run (rc=%d): %s" % (p.returncode, msg)})
        idx = next((i for i, r in enumerate(todo) if r["run"] == last_run), None)
        if idx is None:
            raise ToolError("harness died in an unknown run %r" % last_run)
        with open(trace, "a") as dst:
            dst.write(json.dumps({"run": last_run, "ev": "reset_after_crash"}) + "\n")
        todo = todo[idx + 1:]
        if deaths >= 12:
            # a badly broken build: 12 dead processes are enough evidence; the remaining runs are not executed
            # (deaths are data - violations of the engine's panic-freedom / memory-safety properties - not tool errors)
            break
    os.remove(ops)
    return trace


def crash_viols(props, runs_by_id=None, engine=None, driver="crash"):
    """Drain CRASHES into violation records, one per property in props."""
    out = []
    while CRASHES:
        c = CRASHES.pop()
        for p in props:
            v = {"prop": p, "run": c["run"], "line": 0, "what": c["what"], "driver": driver}
            if runs_by_id is not None:
                v["replay"] = {"engine": engine, "run": runs_by_id.get(c["run"])}
            out.append(v)
    return out


def label_event(label, prefix="Step("):
    lab = tlaval.unescape_dot(label)
    if not (lab.startswith(prefix) and lab.endswith(")")):
        raise ToolError("unexpected action label %r" % label)
    return tlaval.parse(lab[len(prefix):-1])


class Result:
    """Accumulates what an engine did; JSON-serialisable via .data."""

    def __init__(self):
        self.data = {"mc": [], "tv_runs": 0, "tv_events": 0, "viol": [], "drift": [],
                     "witness": {}, "samples": {}, "edge_cover": [], "notes": [],
                     "zero_coverage": []}

    def add_mc(self, name, res, constants=None):
        self.data["mc"].append({"name": name, "generated": res["generated"],
                                "distinct": res["distinct"], "depth": res["depth"],
                                "wall_s": round(res["wall_s"], 2), "constants": constants or ""})

    def add_tv(self, tv, runs_by_id, engine, driver, crash_props=()):
        self.data["viol"] += crash_viols(crash_props, runs_by_id, engine, driver)
        self.data["tv_runs"] += len(runs_by_id)
        self.data["tv_events"] += tv["events"]
        for v in tv["viol"]:
            r = runs_by_id.get(v["run"])
            self.data["viol"].append({"prop": v["prop"], "run": v["run"], "line": v["line"],
                                      "what": v["what"], "driver": driver,
                                      "replay": {"engine": engine, "run": r}})
        for d in tv["drift"]:
            self.data["drift"].append(dict(d, driver=driver))


def cache_get(key):
    p = os.path.join(WORK, "cache", key + ".json")
    if os.path.exists(p):
        try:
            return json.load(open(p))
        except Exception:
            return None
    return None


def cache_put(key, data):
    d = os.path.join(WORK, "cache")
    os.makedirs(d, exist_ok=True)
    part = key.split("-")[0]
    for fn in os.listdir(d):                       # keep only the newest result per part
        if fn.startswith(part + "-") and fn.endswith(".json"):
            try:
                os.remove(os.path.join(d, fn))
            except OSError:
                pass
    tmp = os.path.join(d, ".%s.%d.tmp" % (key, os.getpid()))
    with open(tmp, "w") as f:
        json.dump(data, f)
    os.replace(tmp, os.path.join(d, key + ".json"))


def known_findings():
    p = os.path.join(VERIF, "known_findings.json")
    return json.load(open(p)).get("findings", [])


def matches_known(viol, finding):
    """An open finding matches a violation record iff every key of its 'match' predicate
    is satisfied: 'what_contains' (substring of the message), 'engine', 'cfg' (subset of
    the run's cfg)."""
    m = finding.get("match") or {}
    if finding.get("status") != "open" or finding.get("property") != viol["prop"]:
        return False
    if "what_contains" in m and m["what_contains"] not in viol["what"]:
        return False
    run = (viol.get("replay") or {}).get("run") or {}
    if "engine" in m and m["engine"] != (viol.get("replay") or {}).get("engine"):
        return False
    for k, v in (m.get("cfg") or {}).items():
        if (run.get("cfg") or {}).get(k) != v:
            return False
    return bool(m)


def write_evidence(prop, tier, seed, res, wall, nviol, extra_assumptions=()):
    d = res.data
    states = sum(x["distinct"] for x in d["mc"])
    trans = sum(x["generated"] for x in d["mc"])
    w = d["witness"].get(prop, {})
    cov = {
        "states": states,
        "transitions": trans,
        "traces_validated_against_impl": d["tv_runs"],
        "evaluations": d["tv_events"],
        "distinct_nontrivial": w.get("count", 0),
        "rule": w.get("rule", ""),
        "samples": d["samples"].get(prop) or d["samples"].get("*") or [],
        "model_checking_runs": d["mc"],
        "edge_cover": d["edge_cover"],
        "drift": d["drift"][:20],
        "drift_count": len(d["drift"]),
        "coverage_zero_actions": d["zero_coverage"],
        "notes": d["notes"],
        "exhaustive": False,
    }
    if states == 0 or trans == 0:
        # no design model-checking run in this check: trace validation only (generic counters apply)
        del cov["states"], cov["transitions"]
    try:
        from . import manifest_data
        note = manifest_data.CHECKS[prop]["note"]
    except Exception:
        note = ""
    common = ["TLC (tla2tools 1.8.0) and, where used, Apalache 0.58 / Z3 evaluate the TLA+ definitions correctly",
              "the harness records what the code under test did: it contains no oracle, the hooks (cfg woodpile_verif) are read-only "
              "projections / registries / stand-ins that pass through to std",
              "the harness build (debug assertions on, opt-level 1, cfg woodpile_verif) behaves like the library users build",
              "exhaustive results hold within the constants listed under model_checking_runs; beyond them the claim rests on the "
              "validated samples counted above"]
    ev = {"property_id": prop, "tier": tier, "seed": seed, "level": "model_checking",
          "coverage": cov,
          "assumptions": list(extra_assumptions) + d.get("assumptions", []) + common + ([note] if note else []),
          "wall_s": round(wall, 2), "violations": nviol}
    os.makedirs(os.path.join(VERIF, "evidence"), exist_ok=True)
    with open(os.path.join(VERIF, "evidence", prop + ".json"), "w") as f:
        json.dump(ev, f, indent=1)
