//! Shared helpers: ops-file reader, trace writer, panic capture.
use serde_json::Value;
use std::io::{BufRead, BufWriter, Write};
use std::panic::{catch_unwind, AssertUnwindSafe};

pub struct Run {
    pub run: i64,
    pub cfg: Value,
    pub ops: Vec<Value>,
}

pub fn read_runs(path: &str) -> Vec<Run> {
    let f = std::fs::File::open(path).unwrap_or_else(|e| panic!("cannot open ops file {path}: {e}"));
    let mut out = Vec::new();
    for line in std::io::BufReader::new(f).lines() {
        let line = line.expect("read ops");
        if line.trim().is_empty() {
            continue;
        }
        let v: Value = serde_json::from_str(&line).expect("ops line is JSON");
        out.push(Run {
            run: v["run"].as_i64().expect("run id"),
            cfg: v.get("cfg").cloned().unwrap_or(Value::Null),
            ops: v["ops"].as_array().cloned().unwrap_or_default(),
        });
    }
    out
}

/// Watchdog: a run that does not end (the code under test spins) kills the process, which the orchestrator records as a
/// death in that run, like an abort.
static RUN_STARTED: std::sync::atomic::AtomicU64 = std::sync::atomic::AtomicU64::new(0);

fn now_ms() -> u64 {
    std::time::SystemTime::now().duration_since(std::time::UNIX_EPOCH).map(|d| d.as_millis() as u64).unwrap_or(0)
}

pub fn start_watchdog(budget_s: u64) {
    RUN_STARTED.store(now_ms(), std::sync::atomic::Ordering::Relaxed);
    std::thread::spawn(move || loop {
        std::thread::sleep(std::time::Duration::from_millis(500));
        let started = RUN_STARTED.load(std::sync::atomic::Ordering::Relaxed);
        if now_ms().saturating_sub(started) > budget_s * 1000 {
            eprintln!("PANIC: watchdog: one run did not end within {budget_s} s (the code under test does not terminate)");
            std::process::abort();
        }
    });
}

pub struct Trace {
    w: BufWriter<std::fs::File>,
    pub events: u64,
}

impl Trace {
    pub fn create(path: &str) -> Trace {
        Trace {
            w: BufWriter::new(std::fs::File::create(path).expect("create trace")),
            events: 0,
        }
    }
    pub fn emit(&mut self, v: &Value) {
        serde_json::to_writer(&mut self.w, v).expect("write trace");
        self.w.write_all(b"\n").expect("write trace");
        self.events += 1;
        // a run boundary is always on disk before the run executes: if the code under test aborts
        // the process, the orchestrator knows which run did it
        if v["ev"] == "reset" {
            self.w.flush().expect("flush trace");
            RUN_STARTED.store(now_ms(), std::sync::atomic::Ordering::Relaxed);
        }
    }
    pub fn finish(mut self) {
        self.w.flush().expect("flush trace");
    }
}

/// Runs `f`, returning `Err(message)` if it panics.  Panics in the code under test are
/// data for the validator, never a harness failure.
pub fn guarded<T>(f: impl FnOnce() -> T) -> Result<T, String> {
    match catch_unwind(AssertUnwindSafe(f)) {
        Ok(v) => Ok(v),
        Err(e) => {
            let msg = if let Some(s) = e.downcast_ref::<&str>() {
                s.to_string()
            } else if let Some(s) = e.downcast_ref::<String>() {
                s.clone()
            } else {
                "non-string panic".to_string()
            };
            // keep it short and JSON/TLA friendly
            let msg: String = msg
                .chars()
                .map(|c| if c.is_ascii_graphic() || c == ' ' { c } else { ' ' })
                .filter(|c| *c != '"' && *c != '\\')
                .take(160)
                .collect();
            Err(if msg.is_empty() { "panic".into() } else { msg })
        }
    }
}

pub fn silence_panics() {
    // one short line per panic on stderr: only looked at when the process dies
    std::panic::set_hook(Box::new(|info| {
        let msg: String = format!("{info}").chars().filter(|c| *c != '\n').take(300).collect();
        eprintln!("PANIC: {msg}");
    }));
}

pub fn geti(v: &Value, k: &str) -> i64 {
    v[k].as_i64().unwrap_or_else(|| panic!("op field {k} missing in {v}"))
}
pub fn gets<'a>(v: &'a Value, k: &str) -> &'a str {
    v[k].as_str().unwrap_or_else(|| panic!("op field {k} missing in {v}"))
}
