//! Driver for OwningIovec (C03, C04, C05, C20, C10a): executes operation sequences on up to a
//! handful of live objects and records, after every operation, the observable state of every live
//! object, the classification of every exposed slice against the live-chunk registry (hook H2) and
//! the chunk creations / destructions.
//!
//! Byte strings are written as canonical run lists [[kind, a, n], ...]:
//!   kind 0: ramp  a, a+1, ... (mod 251), values < 251      kind 1: constant a (a >= 251)
use crate::util::*;
use owning_iovec::{AnchoredSlice, Backref, ByteArena, OwningIovec};
use serde_json::{json, Map, Value};
use std::collections::BTreeMap;
use std::io::IoSlice;
use std::num::NonZeroUsize;

const POOL: usize = 3 << 20;

struct Pools {
    ramp: &'static [u8],
    consts: Vec<&'static [u8]>, // 251..=255
}

fn pools() -> Pools {
    let ramp: Vec<u8> = (0..POOL + 251).map(|i| (i % 251) as u8).collect();
    let consts = (251u16..=255)
        .map(|v| &*Box::leak(vec![v as u8; POOL].into_boxed_slice()))
        .collect();
    Pools { ramp: Box::leak(ramp.into_boxed_slice()), consts }
}

impl Pools {
    /// data descriptor [kind, a, n] -> borrowed static bytes
    fn get(&self, d: &Value) -> &'static [u8] {
        let kind = d[0].as_i64().unwrap();
        let a = d[1].as_i64().unwrap() as usize;
        let n = d[2].as_i64().unwrap() as usize;
        assert!(n <= POOL, "harness: data too large");
        if kind == 0 {
            &self.ramp[a % 251..a % 251 + n]
        } else {
            &self.consts[a - 251][..n]
        }
    }
    fn is_ext(&self, addr: usize, len: usize) -> bool {
        let inside = |s: &[u8]| {
            let b = s.as_ptr() as usize;
            addr >= b && addr + len <= b + s.len()
        };
        inside(self.ramp) || self.consts.iter().any(|c| inside(c))
    }
}

pub fn runlist(bytes: &[u8]) -> Vec<[i64; 3]> {
    let mut out: Vec<[i64; 3]> = Vec::new();
    let mut i = 0;
    while i < bytes.len() {
        let b = bytes[i];
        let mut j = i + 1;
        if b < 251 {
            while j < bytes.len() && bytes[j] < 251 && bytes[j] as usize == (bytes[j - 1] as usize + 1) % 251 {
                j += 1;
            }
            out.push([0, b as i64, (j - i) as i64]);
        } else {
            while j < bytes.len() && bytes[j] == b {
                j += 1;
            }
            out.push([1, b as i64, (j - i) as i64]);
        }
        i = j;
    }
    out
}

struct World {
    objs: BTreeMap<i64, OwningIovec<'static>>,
    tokens: BTreeMap<i64, (i64, Backref)>, // placeholder id -> (owning object, capability)
    held: BTreeMap<i64, AnchoredSlice>,
    pools: Pools,
    chunk_ids: BTreeMap<usize, (u64, usize)>, // base -> (id, len) of live chunks (from the registry)
}

impl World {
    fn refresh_chunks(&mut self) {
        self.chunk_ids.clear();
        for (id, base, len) in owning_iovec::verif::live_chunks() {
            self.chunk_ids.insert(base, (id, len));
        }
    }

    /// [where, off, len]: where > 0: live chunk id; -1: harness-lent buffer; -2: dangling
    fn classify(&self, addr: usize, len: usize) -> [i64; 3] {
        if len == 0 {
            return [-1, 0, 0];
        }
        if let Some((base, (id, clen))) = self.chunk_ids.range(..=addr).next_back() {
            if addr + len <= base + clen {
                return [*id as i64, (addr - base) as i64, len as i64];
            }
        }
        if self.pools.is_ext(addr, len) {
            return [-1, 0, len as i64];
        }
        [-2, 0, len as i64]
    }

    /// Does any slice of any live object, or any held AnchoredSlice, lie in [base, base+len)?
    fn orphans(&self, base: usize, len: usize) -> usize {
        // a slice that lies in a chunk that is live *now* (the allocator may hand the same addresses to
        // a chunk created later in the same operation) does not point into the released one
        let inside = |a: usize, l: usize| l > 0 && a < base + len && a + l > base && self.classify(a, l)[0] <= 0;
        let mut n = 0;
        for o in self.objs.values() {
            n += o.verif_projection().slices.iter().filter(|(a, l)| inside(*a, *l)).count();
        }
        n += self.held.values().filter(|h| inside(h.slice().as_ptr() as usize, h.slice().len())).count();
        n
    }

    fn observe_obj(&self, id: i64, o: &OwningIovec<'static>) -> Value {
        let sp = o.stable_prefix();
        let lens: Vec<usize> = sp.iter().map(|s| s.len()).collect();
        let mut cls = Vec::new();
        let mut dangling = 0;
        for s in sp {
            let c = self.classify(s.as_ptr() as usize, s.len());
            if c[0] == -2 {
                dangling += 1;
            }
            cls.push(c);
        }
        // content is read only from slices that are not dangling
        let (flat, flat_ok) = if dangling == 0 {
            match o.flatten() {
                Ok(v) => (v, true),
                Err(v) => (v, false),
            }
        } else {
            (Vec::new(), !o.has_pending_backrefs())
        };
        let mut into = Vec::new();
        if dangling == 0 {
            into = o.flatten_into(vec![0xAA, 0xBB]).unwrap_or_else(|v| v);
        }
        let iter_lens: Vec<usize> = o.into_iter().map(|s| s.len()).collect();
        let iovs = o.iovs();
        let (iovs_ok, iovs_n) = match iovs {
            Ok(s) => (true, s.len()),
            Err(s) => (false, s.len()),
        };
        let proj = o.verif_projection();
        let pslices: Vec<[i64; 3]> = proj.slices.iter().map(|(a, l)| self.classify(*a, *l)).collect();
        let panchors: Vec<[i64; 2]> = proj
            .anchors
            .iter()
            .map(|(c, b)| [*c as i64, if *b == 0 { 0 } else { self.chunk_ids.get(b).map(|x| x.0 as i64).unwrap_or(-2) }])
            .collect();
        let cache = match proj.cache {
            Some((s, e, b)) => vec![self.chunk_ids.get(&s).map(|x| x.0 as i64).unwrap_or(-2), (b - s) as i64, (e - s) as i64],
            None => vec![],
        };
        json!({"o": id, "total": o.total_size(), "len": o.len(), "empty": o.is_empty() as u8,
               "pending": o.has_pending_backrefs() as u8, "iovs_ok": iovs_ok as u8, "iovs_n": iovs_n,
               "flat_ok": flat_ok as u8, "front": o.front().map(|s| s.len()).unwrap_or(0),
               "lens": lens, "iter_lens": iter_lens, "sb": runlist(&flat),
               "into_ok": (dangling > 0 || (into.len() >= 2 && into[0] == 0xAA && into[1] == 0xBB && into[2..] == flat[..])) as u8,
               "cls": cls, "dangling": dangling,
               "proj": {"slices": pslices, "anchors": panchors, "cache": cache,
                        "logical": proj.logical_size, "consumed": proj.consumed_size, "cslices": proj.consumed_slices,
                        "backrefs": proj.backrefs.iter().map(|b| json!([b.0, b.1, b.2, b.3])).collect::<Vec<_>>()}})
    }

    fn observe(&mut self, e: &mut Map<String, Value>) {
        // chunk events first (orphans are judged against the state after the operation)
        let evs = owning_iovec::verif::take_events();
        self.refresh_chunks();
        let mut chunks = Vec::new();
        for ev in evs {
            let orphans = if ev.created { 0 } else { self.orphans(ev.base, ev.len) };
            chunks.push(json!([ev.created as u8, ev.id, ev.len, orphans]));
        }
        e.insert("chunks".into(), json!(chunks));
        // stable_consumer() needs &mut: taken first, per object: [ok, StableIovec::flatten() agrees with flatten(), iovs count]
        let mut stable: BTreeMap<i64, [i64; 3]> = BTreeMap::new();
        let rs = guarded(|| {
            let mut m = BTreeMap::new();
            for (id, o) in self.objs.iter_mut() {
                let plain = o.flatten().ok();
                let st = match o.stable_consumer() {
                    Ok(s) => {
                        let same = plain.as_ref().map(|p| *p == s.flatten() && s.flatten_into(vec![1]) [1..] == p[..]).unwrap_or(false);
                        [1, same as i64, s.iovs().len() as i64]
                    }
                    Err(_) => [0, 1, 0],
                };
                m.insert(*id, st);
            }
            m
        });
        if let Ok(m) = rs {
            stable = m;
        }
        let r = guarded(|| {
            let mut obs = Vec::new();
            for (id, o) in &self.objs {
                let mut v = self.observe_obj(*id, o);
                let st = stable.get(id).copied().unwrap_or([-1, 0, 0]);
                v["stable_ok"] = json!(st[0]);
                v["stable_same"] = json!(st[1]);
                v["stable_n"] = json!(st[2]);
                obs.push(v);
            }
            let held: Vec<Value> = self
                .held
                .iter()
                .map(|(h, a)| {
                    let c = self.classify(a.slice().as_ptr() as usize, a.slice().len());
                    let content = if c[0] != -2 { runlist(a.slice()) } else { vec![] };
                    json!({"h": h, "cls": c, "sb": content})
                })
                .collect();
            (obs, held)
        });
        match r {
            Ok((obs, held)) => {
                e.insert("obs".into(), json!(obs));
                e.insert("held".into(), json!(held));
                e.insert("obs_panic".into(), json!(""));
            }
            Err(p) => {
                e.insert("obs".into(), json!([]));
                e.insert("held".into(), json!([]));
                e.insert("obs_panic".into(), json!(p));
            }
        }
        e.insert("live".into(), json!([ByteArena::num_live_chunks(), ByteArena::num_live_bytes()]));
    }
}

fn do_op(w: &mut World, op: &Value, e: &mut Map<String, Value>) -> Result<(), String> {
    let ev = gets(op, "ev").to_string();
    let oid = op["o"].as_i64().unwrap_or(0);
    macro_rules! obj {
        () => {
            match w.objs.get_mut(&oid) {
                Some(o) => o,
                None => {
                    e.insert("skip".into(), json!(1));
                    return Ok(());
                }
            }
        };
    }
    e.insert("skip".into(), json!(0));
    e.insert("ret".into(), json!(-1));
    e.insert("req".into(), json!([]));
    e.insert("got".into(), json!([]));
    match ev.as_str() {
        "new" => {
            w.objs.insert(oid, OwningIovec::new());
        }
        "from_slices" => {
            let slices: Vec<IoSlice<'static>> =
                op["data"].as_array().unwrap().iter().map(|d| IoSlice::new(w.pools.get(d))).collect();
            let o = match gets(op, "how") {
                "slices" => OwningIovec::new_from_slices(slices, None),
                "arena" => OwningIovec::new_from_slices(slices, Some(ByteArena::new())),
                "iter" => slices.into_iter().collect(),
                "iter_ref" => {
                    let leaked: &'static [IoSlice<'static>] = Box::leak(slices.into_boxed_slice());
                    leaked.iter().collect()
                }
                h => panic!("harness: from_slices how={h}"),
            };
            w.objs.insert(oid, o);
        }
        "push" => {
            let data = w.pools.get(&op["d"]);
            let o = obj!();
            match gets(op, "m") {
                "auto" => o.push(data),
                "borrow" => o.push_borrowed(data),
                "copy" => o.push_copy(data),
                "sink_copy" => owning_iovec::ZeroCopySink::append_copy(o, data),
                "sink_borrow" => owning_iovec::ZeroCopySink::append_borrow(o, data),
                m => panic!("harness: push m={m}"),
            }
        }
        "extend" => {
            let slices: Vec<IoSlice<'static>> =
                op["data"].as_array().unwrap().iter().map(|d| IoSlice::new(w.pools.get(d))).collect();
            obj!().extend(slices);
        }
        "push_anchored" => {
            let data = w.pools.get(&op["d"]);
            let o = obj!();
            let a = o.arena().read_n(data, data.len(), NonZeroUsize::MAX).map_err(|e| format!("{e:?}"))?;
            let (_, slice, anchor) = unsafe { a.components() };
            if !slice.is_empty() {
                o.push_borrowed(slice);
                o.push_anchor(anchor);
            }
        }
        "hold" => {
            let data = w.pools.get(&op["d"]);
            let o = obj!();
            // "count" > len(d): the reader delivers d and then reports end of file (short read, partial release)
            let count = op["count"].as_u64().map(|c| c as usize).unwrap_or(data.len()).max(data.len());
            let a = o.arena().read_n(data, count, NonZeroUsize::MAX).map_err(|e| format!("{e:?}"))?;
            w.held.insert(geti(op, "h"), a);
        }
        "held_op" => {
            let h = geti(op, "h");
            if let Some(mut a) = w.held.remove(&h) {
                match gets(op, "what") {
                    "skip" => {
                        a.skip_prefix(geti(op, "n") as usize);
                        w.held.insert(h, a);
                    }
                    "drop_suffix" => {
                        a.drop_suffix(geti(op, "n") as usize);
                        w.held.insert(h, a);
                    }
                    "split" => {
                        let (l, r) = a.split_at(geti(op, "n") as usize);
                        w.held.insert(h, l);
                        w.held.insert(geti(op, "h2"), r);
                    }
                    "clone" => {
                        w.held.insert(geti(op, "h2"), a.clone());
                        w.held.insert(h, a);
                    }
                    "push" => {
                        // hand the held slice over to an object (the hcobs pattern)
                        if let Some(o) = w.objs.get_mut(&oid) {
                            let (_, slice, anchor) = unsafe { a.components() };
                            if !slice.is_empty() {
                                o.push_borrowed(slice);
                                o.push_anchor(anchor);
                            }
                        }
                    }
                    "release" => {}
                    x => panic!("harness: held_op {x}"),
                }
            } else {
                e.insert("skip".into(), json!(1));
            }
        }
        "register" => {
            let n = geti(op, "n") as usize;
            let mut pat = &w.pools.consts[0][..n]; // 251
            if op["alias"].as_bool() == Some(true) {
                // the pattern is read from the tail of the object's own last stable slice (bytes that may sit at the tip of
                // its arena): register_patch must still make its own copy of it
                if let Some(last) = obj!().stable_prefix().last() {
                    if last.len() >= n && n > 0 {
                        pat = unsafe { std::slice::from_raw_parts(last.as_ptr().add(last.len() - n), n) };
                    }
                }
            }
            let tok = obj!().register_patch(pat);
            e.insert("ret".into(), json!(tok.len()));
            w.tokens.insert(geti(op, "id"), (oid, tok));
        }
        "backfill" => {
            let id = geti(op, "id");
            let v = geti(op, "v") as usize;
            match w.tokens.remove(&id) {
                Some((owner, tok)) => {
                    // "any_obj": the script only knows the placeholder; it belongs to whoever holds it now
                    let target = if op["any_obj"].as_bool().unwrap_or(false) { owner } else { oid };
                    e.insert("o".into(), json!(target));
                    let n = tok.len();
                    let fill = &w.pools.consts[v - 251][..n];
                    match w.objs.get_mut(&target) {
                        Some(o) => o.backfill_or_panic(tok, fill),
                        None => {
                            e.insert("skip".into(), json!(1));
                        }
                    }
                }
                None => {
                    e.insert("skip".into(), json!(1));
                }
            }
        }
        "bad_backfill" => {
            // a backfill of the wrong size: documented to panic; afterwards the placeholder can never be filled
            let id = geti(op, "id");
            match w.tokens.remove(&id) {
                Some((owner, tok)) => {
                    e.insert("o".into(), json!(owner));
                    let n = tok.len() + 1;
                    let fill = &w.pools.consts[1][..n];
                    match w.objs.get_mut(&owner) {
                        Some(o) => o.backfill_or_panic(tok, fill),
                        None => {
                            e.insert("skip".into(), json!(1));
                        }
                    }
                }
                None => {
                    e.insert("skip".into(), json!(1));
                }
            }
        }
        "clear" => {
            obj!().clear();
            w.tokens.retain(|_, (owner, _)| *owner != oid);
        }
        "take" => {
            let t = obj!().take();
            let to = geti(op, "to");
            w.objs.insert(to, t);
            for (owner, _) in w.tokens.values_mut() {
                if *owner == oid {
                    *owner = to;
                }
            }
        }
        "clone" => {
            let c = obj!().clone();
            w.objs.insert(geti(op, "to"), c);
        }
        "clone_from" => {
            // Clone::clone_from onto an object that already exists: afterwards it is a snapshot of the source
            let to = geti(op, "to");
            if !w.objs.contains_key(&oid) || to == oid {
                e.insert("skip".into(), json!(1));
                return Ok(());
            }
            match w.objs.remove(&to) {
                Some(mut dst) => {
                    dst.clone_from(obj!());
                    w.objs.insert(to, dst);
                    w.tokens.retain(|_, (owner, _)| *owner != to);
                }
                None => {
                    e.insert("skip".into(), json!(1));
                }
            }
        }
        "drop" => {
            if w.objs.remove(&oid).is_none() {
                e.insert("skip".into(), json!(1));
            }
            w.tokens.retain(|_, (owner, _)| *owner != oid);
        }
        "flush" => {
            obj!().arena().flush_cache();
        }
        "ensure" => {
            obj!().arena().ensure_capacity(geti(op, "n") as usize);
        }
        "take_arena" => {
            let a = obj!().consumer().take_arena();
            drop(a);
        }
        "swap_arena" => {
            let p = geti(op, "p");
            if p == oid || !w.objs.contains_key(&p) || !w.objs.contains_key(&oid) {
                e.insert("skip".into(), json!(1));
                return Ok(());
            }
            let a = w.objs.get_mut(&oid).unwrap().consumer().take_arena();
            let b = w.objs.get_mut(&p).unwrap().consumer().swap_arena(a);
            let c = w.objs.get_mut(&oid).unwrap().consumer().swap_arena(b);
            drop(c);
        }
        "consume" | "advance" | "pop" | "read" => {
            let n = op["n"].as_i64().unwrap_or(1) as usize;
            let o = obj!();
            // the region the call is asked to remove, from the arguments and the observed pre-state
            let sp = o.stable_prefix();
            let stable: usize = sp.iter().map(|s| s.len()).sum();
            let region = match ev.as_str() {
                "consume" => sp.iter().take(n).map(|s| s.len()).sum::<usize>(),
                "pop" => sp.first().map(|s| s.len()).unwrap_or(0),
                _ => n.min(stable),
            };
            e.insert("nsl_before".into(), json!(sp.len()));
            e.insert("stable_before".into(), json!(stable));
            if ev == "pop" && sp.is_empty() {
                // documented to panic ("no stable prefix"); it must not remove anything either
                if o.is_empty() {
                    e.insert("skip".into(), json!(1));
                    return Ok(());
                }
                e.insert("ev".into(), json!("bad_pop"));
                e.insert("req".into(), json!(runlist(&[])));
                e.insert("ret".into(), json!(0));
                o.consumer().pop_front();
                return Ok(());
            }
            let mut req = Vec::with_capacity(region);
            for s in sp {
                if req.len() >= region {
                    break;
                }
                let k = (region - req.len()).min(s.len());
                req.extend_from_slice(&s[..k]);
            }
            e.insert("req".into(), json!(runlist(&req)));
            let ret = match ev.as_str() {
                "consume" => o.consumer().consume(n),
                "advance" => o.consumer().advance_slices(n),
                "pop" => {
                    o.consumer().pop_front();
                    1
                }
                _ if op["to_end"].as_bool() == Some(true) => {
                    // Read::read_to_end: everything consumable, in one call
                    use std::io::Read;
                    let mut buf = Vec::new();
                    let k = o.consumer().read_to_end(&mut buf).map_err(|e| format!("{e:?}"))?;
                    e.insert("got".into(), json!(runlist(&buf)));
                    k
                }
                _ => {
                    use std::io::Read;
                    let mut buf = vec![0u8; n];
                    let k = o.consumer().read(&mut buf).map_err(|e| format!("{e:?}"))?;
                    buf.truncate(k);
                    e.insert("got".into(), json!(runlist(&buf)));
                    k
                }
            };
            e.insert("ret".into(), json!(ret));
        }
        x => panic!("harness: unknown pipe op {x}"),
    }
    Ok(())
}

pub fn drive_pipe(ops: &str, trace: &str) {
    let runs = read_runs(ops);
    let mut out = Trace::create(trace);
    let pools = pools();
    let mut w = World { objs: BTreeMap::new(), tokens: BTreeMap::new(), held: BTreeMap::new(), pools, chunk_ids: BTreeMap::new() };
    for run in &runs {
        let _ = owning_iovec::verif::take_events();
        out.emit(&json!({"run":run.run,"ev":"reset","live":[ByteArena::num_live_chunks(), ByteArena::num_live_bytes()]}));
        let mut dead = false;
        for op in &run.ops {
            let mut e = op.as_object().unwrap().clone();
            e.insert("run".into(), json!(run.run));
            let r = guarded(|| do_op(&mut w, op, &mut e));
            match r {
                Ok(Ok(())) => {
                    e.insert("panic".into(), json!(""));
                    e.insert("err".into(), json!(""));
                }
                Ok(Err(s)) => {
                    e.insert("panic".into(), json!(""));
                    e.insert("err".into(), json!(s));
                }
                Err(p) => {
                    for k in ["skip", "ret"] {
                        e.entry(k.to_string()).or_insert(json!(0));
                    }
                    for k in ["req", "got"] {
                        e.entry(k.to_string()).or_insert(json!([]));
                    }
                    e.insert("panic".into(), json!(p));
                    e.insert("err".into(), json!(""));
                    dead = gets(op, "ev") != "bad_backfill" && e.get("ev").and_then(|v| v.as_str()) != Some("bad_pop");
                }
            }
            w.observe(&mut e);
            out.emit(&Value::Object(e));
            if dead {
                break;
            }
        }
        // end of run: everything is dropped (a run that panicked may have objects in odd states)
        let _ = guarded(|| {
            w.tokens.clear();
            w.objs.clear();
            w.held.clear();
        });
        let evs = owning_iovec::verif::take_events();
        out.emit(&json!({"run":run.run,"ev":"end","dead":dead as u8,
                         "live":[ByteArena::num_live_chunks(), ByteArena::num_live_bytes()],
                         "drops": evs.iter().filter(|e| !e.created).count()}));
    }
    out.finish();
}
