//! Drivers for sliding_deque: SlidingDeque (C15) and SortedDeque (C16).
use crate::util::*;
use serde_json::{json, Value};
use sliding_deque::traits::PushTruncateContainer;
use sliding_deque::SlidingDeque;
use smallvec::SmallVec;

fn opt(v: Option<u8>) -> i64 {
    v.map(|x| x as i64).unwrap_or(-1)
}

fn run_deque<C>(run: &Run, from: fn(Vec<u8>) -> C, out: &mut Trace)
where
    C: PushTruncateContainer<Item = u8> + Clone + Default,
{
    let init: Vec<u8> = run.cfg["init"]
        .as_array()
        .map(|a| a.iter().map(|x| x.as_u64().unwrap() as u8).collect())
        .unwrap_or_default();
    let mut d: SlidingDeque<C> = if run.cfg["from"].as_bool().unwrap_or(false) {
        SlidingDeque::from(from(init.clone()))
    } else {
        assert!(init.is_empty());
        SlidingDeque::new()
    };
    out.emit(&json!({"ev":"reset","run":run.run,"kind":run.cfg["kind"],"init":init}));
    for op in &run.ops {
        let ev = gets(op, "ev");
        let r = guarded(|| -> i64 {
            match ev {
                "push_back" => {
                    d.push_back(geti(op, "v") as u8);
                    -1
                }
                "pop_front" => opt(d.pop_front()),
                "pop_back" => opt(d.pop_back()),
                "advance" => d.advance(geti(op, "n") as usize) as i64,
                "clear" => {
                    d.clear();
                    -1
                }
                "slide" => {
                    d.slide();
                    -1
                }
                "write" => {
                    let i = geti(op, "i") as usize;
                    match d.get_mut(i) {
                        Some(x) => {
                            *x = geti(op, "v") as u8;
                            1
                        }
                        None => 0,
                    }
                }
                "write_front" => match d.front_mut() {
                    Some(x) => {
                        *x = geti(op, "v") as u8;
                        1
                    }
                    None => 0,
                },
                "write_back" => match d.back_mut() {
                    Some(x) => {
                        *x = geti(op, "v") as u8;
                        1
                    }
                    None => 0,
                },
                _ => panic!("harness: unknown deque op {ev}"),
            }
        });
        let mut e = op.clone();
        let o = e.as_object_mut().unwrap();
        o.insert("run".into(), json!(run.run));
        match r {
            Ok(ret) => {
                // observations; each accessor is guarded too
                let obs = guarded(|| {
                    let view: Vec<u8> = d.to_vec();
                    let (consumed, clen) = d.verif_rep();
                    json!({"view": view, "len": d.len(), "empty": d.is_empty() as u8,
                           "front": opt(d.front().copied()), "back": opt(d.back().copied()),
                           "consumed": consumed, "clen": clen})
                });
                match obs {
                    Ok(Value::Object(m)) => {
                        o.insert("ret".into(), json!(ret));
                        o.insert("panic".into(), json!(""));
                        for (k, v) in m {
                            o.insert(k, v);
                        }
                        out.emit(&e);
                    }
                    Ok(_) => unreachable!(),
                    Err(msg) => {
                        emit_panic(o, &msg);
                        out.emit(&e);
                        return;
                    }
                }
            }
            Err(msg) => {
                emit_panic(o, &msg);
                out.emit(&e);
                return; // the object may be inconsistent: end of run
            }
        }
    }
}

fn emit_panic(o: &mut serde_json::Map<String, Value>, msg: &str) {
    o.insert("ret".into(), json!(-2));
    o.insert("panic".into(), json!(msg));
    o.insert("view".into(), json!([]));
    for k in ["len", "empty", "front", "back", "consumed", "clen"] {
        o.insert(k.into(), json!(0));
    }
}

pub fn drive_deque(ops: &str, trace: &str) {
    let runs = read_runs(ops);
    let mut out = Trace::create(trace);
    for run in &runs {
        match run.cfg["kind"].as_str().unwrap_or("vec") {
            "vec" => run_deque::<Vec<u8>>(run, |v| v, &mut out),
            "sv2" => run_deque::<SmallVec<[u8; 2]>>(run, SmallVec::from_vec, &mut out),
            "sv4" => run_deque::<SmallVec<[u8; 4]>>(run, SmallVec::from_vec, &mut out),
            k => panic!("harness: unknown container kind {k}"),
        }
    }
    out.finish();
}
