//! Drivers for sliding_deque: SlidingDeque (C15) and SortedDeque (C16).
use crate::util::*;
use serde_json::{json, Value};
use sliding_deque::traits::PushTruncateContainer;
use sliding_deque::SlidingDeque;
use smallvec::SmallVec;

fn opt(v: Option<u8>) -> i64 {
    v.map(|x| x as i64).unwrap_or(-1)
}

fn run_deque<C>(run: &Run, from: fn(Vec<u8>) -> C, out: &mut Trace)
where
    C: PushTruncateContainer<Item = u8> + Clone + Default,
{
    let init: Vec<u8> = run.cfg["init"]
        .as_array()
        .map(|a| a.iter().map(|x| x.as_u64().unwrap() as u8).collect())
        .unwrap_or_default();
    let mut d: SlidingDeque<C> = if run.cfg["from"].as_bool().unwrap_or(false) {
        SlidingDeque::from(from(init.clone()))
    } else {
        assert!(init.is_empty());
        SlidingDeque::new()
    };
    out.emit(&json!({"ev":"reset","run":run.run,"kind":run.cfg["kind"],"init":init}));
    for op in &run.ops {
        let ev = gets(op, "ev");
        let r = guarded(|| -> i64 {
            match ev {
                "push_back" => {
                    d.push_back(geti(op, "v") as u8);
                    -1
                }
                "pop_front" => opt(d.pop_front()),
                "pop_back" => opt(d.pop_back()),
                // "max": the count is usize::MAX (the event keeps a large finite n: same meaning for the spec)
                "advance" => d.advance(if op["max"].as_bool().unwrap_or(false) { usize::MAX } else { geti(op, "n") as usize }) as i64,
                "clear" => {
                    d.clear();
                    -1
                }
                "slide" => {
                    d.slide();
                    -1
                }
                "write" => {
                    let i = geti(op, "i") as usize;
                    match d.get_mut(i) {
                        Some(x) => {
                            *x = geti(op, "v") as u8;
                            1
                        }
                        None => 0,
                    }
                }
                "write_front" => match d.front_mut() {
                    Some(x) => {
                        *x = geti(op, "v") as u8;
                        1
                    }
                    None => 0,
                },
                "write_back" => match d.back_mut() {
                    Some(x) => {
                        *x = geti(op, "v") as u8;
                        1
                    }
                    None => 0,
                },
                _ => panic!("harness: unknown deque op {ev}"),
            }
        });
        let mut e = op.clone();
        let o = e.as_object_mut().unwrap();
        o.insert("run".into(), json!(run.run));
        match r {
            Ok(ret) => {
                // observations; each accessor is guarded too
                let obs = guarded(|| {
                    let view: Vec<u8> = d.to_vec();
                    let (consumed, clen) = d.verif_rep();
                    json!({"view": view, "len": d.len(), "empty": d.is_empty() as u8,
                           "front": opt(d.front().copied()), "back": opt(d.back().copied()),
                           "consumed": consumed, "clen": clen})
                });
                match obs {
                    Ok(Value::Object(m)) => {
                        o.insert("ret".into(), json!(ret));
                        o.insert("panic".into(), json!(""));
                        for (k, v) in m {
                            o.insert(k, v);
                        }
                        out.emit(&e);
                    }
                    Ok(_) => unreachable!(),
                    Err(msg) => {
                        emit_panic(o, &msg);
                        out.emit(&e);
                        return;
                    }
                }
            }
            Err(msg) => {
                emit_panic(o, &msg);
                out.emit(&e);
                return; // the object may be inconsistent: end of run
            }
        }
    }
}

fn emit_panic(o: &mut serde_json::Map<String, Value>, msg: &str) {
    o.insert("ret".into(), json!(-2));
    o.insert("panic".into(), json!(msg));
    o.insert("view".into(), json!([]));
    for k in ["len", "empty", "front", "back", "consumed", "clen"] {
        o.insert(k.into(), json!(0));
    }
}

pub fn drive_deque(ops: &str, trace: &str) {
    let runs = read_runs(ops);
    let mut out = Trace::create(trace);
    for run in &runs {
        match run.cfg["kind"].as_str().unwrap_or("vec") {
            "vec" => run_deque::<Vec<u8>>(run, |v| v, &mut out),
            "sv2" => run_deque::<SmallVec<[u8; 2]>>(run, SmallVec::from_vec, &mut out),
            "sv4" => run_deque::<SmallVec<[u8; 4]>>(run, SmallVec::from_vec, &mut out),
            k => panic!("harness: unknown container kind {k}"),
        }
    }
    out.finish();
}

// ---------------------------------------------------------------- SortedDeque (C16)
use sliding_deque::traits::SortedDequeItem;
use sliding_deque::SortedDeque;

/// Whole-item ordering convention: key first, erased flag/value least significant, so that
/// marking an item erased never reorders it with respect to items with other keys.
#[derive(Clone, Copy, Debug, PartialEq, Eq, PartialOrd, Ord)]
pub struct WItem {
    key: u8,
    val: Option<std::num::NonZeroU8>,
}

impl SortedDequeItem for WItem {
    fn mark_erased(&mut self) {
        self.val = None;
    }
    fn is_erased(&self) -> bool {
        self.val.is_none()
    }
}

fn kv_item(k: u8, v: u8) -> (u8, Option<u8>) {
    (k, if v == 0 { None } else { Some(v) })
}
fn kv_key(k: u8, _v: u8) -> u8 {
    k
}
fn kv_back(i: &(u8, Option<u8>)) -> Value {
    json!([i.0, i.1.unwrap_or(0)])
}
fn w_item(k: u8, v: u8) -> WItem {
    WItem { key: k, val: std::num::NonZeroU8::new(v) }
}
fn w_key(k: u8, v: u8) -> WItem {
    w_item(k, v)
}
fn w_back(i: &WItem) -> Value {
    json!([i.key, i.val.map(|x| x.get()).unwrap_or(0)])
}

macro_rules! sorted_driver {
    ($name:ident, $cont:ty, $mk:ident, $key:ident, $back:ident) => {
        fn $name(run: &Run, out: &mut Trace) {
            let mut d: SortedDeque<$cont> = Default::default();
            out.emit(&json!({"ev":"reset","run":run.run,"kind":run.cfg["kind"],"mode":run.cfg["mode"]}));
            let optv = |x: Option<<$cont as PushTruncateContainer>::Item>| match x {
                Some(i) => $back(&i),
                None => json!([]),
            };
            for op in &run.ops {
                let ev = gets(op, "ev");
                let r = guarded(|| -> Value {
                    match ev {
                        "push" => {
                            d.push_back_or_panic($mk(geti(op, "k") as u8, geti(op, "v") as u8));
                            json!([])
                        }
                        "find" => optv(d.find(&$key(geti(op, "k") as u8, geti(op, "v") as u8)).copied()),
                        "remove" => optv(d.remove(&$key(geti(op, "k") as u8, geti(op, "v") as u8))),
                        "pop_first" => optv(d.pop_first()),
                        "pop_last" => optv(d.pop_last()),
                        "clear" => {
                            d.clear();
                            json!([])
                        }
                        _ => panic!("harness: unknown sorted op {ev}"),
                    }
                });
                let mut e = op.clone();
                let o = e.as_object_mut().unwrap();
                o.insert("run".into(), json!(run.run));
                let (ret, pmsg) = match r {
                    Ok(v) => (v, String::new()),
                    Err(m) => (json!([]), m),
                };
                // observe (also after a panic: push_back_or_panic asserts before mutating)
                let obs = guarded(|| {
                    let iter: Vec<Value> = d.iter().map(|i| $back(i)).collect();
                    let phys: Vec<Value> = d.verif_items().iter().map(|i| $back(i)).collect();
                    let (consumed, clen) = d.verif_items().verif_rep();
                    json!({"iter": iter, "first": optv(d.first().copied()), "last": optv(d.last().copied()),
                           "empty": d.is_empty() as u8, "phys": phys, "consumed": consumed, "clen": clen})
                });
                o.insert("ret".into(), ret);
                o.insert("panic".into(), json!(pmsg));
                match obs {
                    Ok(Value::Object(m)) => {
                        o.insert("obs_panic".into(), json!(""));
                        for (k, v) in m {
                            o.insert(k, v);
                        }
                        out.emit(&e);
                    }
                    Ok(_) => unreachable!(),
                    Err(msg) => {
                        o.insert("obs_panic".into(), json!(msg));
                        for k in ["iter", "first", "last", "phys"] {
                            o.insert(k.into(), json!([]));
                        }
                        for k in ["empty", "consumed", "clen"] {
                            o.insert(k.into(), json!(0));
                        }
                        out.emit(&e);
                        return;
                    }
                }
            }
        }
    };
}

sorted_driver!(sorted_kv_vec, Vec<(u8, Option<u8>)>, kv_item, kv_key, kv_back);
sorted_driver!(sorted_kv_sv4, SmallVec<[(u8, Option<u8>); 4]>, kv_item, kv_key, kv_back);
sorted_driver!(sorted_w_vec, Vec<WItem>, w_item, w_key, w_back);
sorted_driver!(sorted_w_sv2, SmallVec<[WItem; 2]>, w_item, w_key, w_back);

pub fn drive_sorted(ops: &str, trace: &str) {
    let runs = read_runs(ops);
    let mut out = Trace::create(trace);
    for run in &runs {
        let kind = run.cfg["kind"].as_str().unwrap_or("vec");
        let mode = run.cfg["mode"].as_str().unwrap_or("kv");
        match (mode, kind) {
            ("kv", "vec") => sorted_kv_vec(run, &mut out),
            ("kv", "sv") => sorted_kv_sv4(run, &mut out),
            ("item", "vec") => sorted_w_vec(run, &mut out),
            ("item", "sv") => sorted_w_sv2(run, &mut out),
            _ => panic!("harness: unknown sorted cfg {mode}/{kind}"),
        }
    }
    out.finish();
}
