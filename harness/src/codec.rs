//! Driver for the HCOBS Encoder / Decoder (C01, C02, C07, C09, and the codec parts of C05/C10).
//!
//! Run cfg: {"kind": "enc"|"dec"|"rt", "l1": n, "l2": n, "prod": bool, "input": [bytes],
//!           "iid": n, "full": bool}
//!   prod = true  -> the real hcobs::Encoder / hcobs::Decoder (production limits),
//!   prod = false -> hcobs::verif::Limit{En,De}coder with limits (l1, l2) (hook H3).
//! Ops: {"ev":"feed","m":"borrow"|"copy"|"anchored"|"read","n":k}   (n = -1: everything left)
//!      {"ev":"drain","mode":"slices"|"bytes"|"read","n":k}
//!      {"ev":"finish"}        (kind "rt": the first finish switches to the decoder, which is
//!                              fed the encoder's actual output)
use crate::util::*;
use hcobs::verif::{LimitDecoder, LimitEncoder};
use hcobs::{Decoder, Encoder};
use owning_iovec::{AnchoredSlice, Backref, ByteArena, ConsumingIovec, OwningIovec};
use serde_json::{json, Map, Value};
use std::num::NonZeroUsize;

trait Codec<'a> {
    fn consumer(&mut self) -> ConsumingIovec<'_>;
    fn feed_borrow(&mut self, d: &'a [u8]) -> Result<(), String>;
    fn feed_copy(&mut self, d: &[u8]) -> Result<(), String>;
    fn feed_anchored(&mut self, d: &[u8]) -> Result<(), String>;
    fn feed_read(&mut self, d: &[u8]) -> Result<(), String>;
    /// anchored input that lives in a chunk of ANOTHER arena, which is dropped right away: only the
    /// AnchoredSlice's own anchor keeps the bytes alive
    fn feed_foreign(&mut self, d: &[u8]) -> Result<(), String> {
        let mut other = ByteArena::new();
        self.feed_from(&mut other, d)
    }
    /// anchored input read into `other` (an arena the codec does not own)
    fn feed_from(&mut self, other: &mut ByteArena, d: &[u8]) -> Result<(), String>;
    /// arena reads from a reader that delivers in short pieces with EINTR in between, two attempts per call; the caller
    /// retries an Interrupted error and goes on after a short count, until the piece is through
    fn feed_flaky(&mut self, d: &[u8], sched: Vec<i64>) -> Result<(), String>;
    /// an arena read of `count` > 0 bytes from a reader that is at end of file: delivers nothing, changes nothing
    fn feed_eof(&mut self) -> Result<(), String>;
    /// read_n now, feed later (a producer that reads ahead of the codec)
    fn read_ahead(&mut self, d: &[u8]) -> Result<AnchoredSlice, String>;
    fn feed_held(&mut self, a: AnchoredSlice) -> Result<(), String>;
    fn finish(self) -> Result<OwningIovec<'a>, String>;
    /// Decoder::take_iovec: give up mid-stream, keep what was decoded so far
    fn take_iovec(self) -> Result<OwningIovec<'a>, String>
    where
        Self: Sized,
    {
        Err("harness: this codec has no take_iovec".into())
    }
}

fn estr<E: std::fmt::Debug>(e: E) -> String {
    format!("{:?}", e).chars().filter(|c| *c != '"' && *c != '\\').take(80).collect()
}

macro_rules! impl_encoder {
    ($t:ty, $read:expr, $eof:expr) => {
        impl<'a> Codec<'a> for $t {
            fn consumer(&mut self) -> ConsumingIovec<'_> {
                <$t>::consumer(self)
            }
            fn feed_borrow(&mut self, d: &'a [u8]) -> Result<(), String> {
                self.encode(d);
                Ok(())
            }
            fn feed_copy(&mut self, d: &[u8]) -> Result<(), String> {
                self.encode_copy(d);
                Ok(())
            }
            fn feed_anchored(&mut self, d: &[u8]) -> Result<(), String> {
                let a = self.read_n(d, d.len(), NonZeroUsize::MAX).map_err(estr)?;
                if a.slice() != d {
                    return Err("harness: read_n returned other bytes".into());
                }
                self.encode_anchored(a);
                Ok(())
            }
            fn feed_read(&mut self, d: &[u8]) -> Result<(), String> {
                $read(self, d)
            }
            fn feed_eof(&mut self) -> Result<(), String> {
                $eof(self)
            }
            fn feed_flaky(&mut self, d: &[u8], sched: Vec<i64>) -> Result<(), String> {
                let mut rd = crate::stream::ScriptReader { data: d, pos: 0, sched, idx: 0, calls: 0 };
                let mut fuel = 20 * d.len() + 100;
                while rd.pos < d.len() && fuel > 0 {
                    fuel -= 1;
                    let want = d.len() - rd.pos;
                    match self.read_n(&mut rd, want, NonZeroUsize::new(2).unwrap()) {
                        Ok(a) => self.feed_held(a)?,
                        Err(e) if e.kind() == std::io::ErrorKind::Interrupted => {}
                        Err(e) => return Err(estr(e)),
                    }
                }
                if rd.pos < d.len() {
                    return Err("harness: flaky reader made no progress".into());
                }
                Ok(())
            }
            fn read_ahead(&mut self, d: &[u8]) -> Result<AnchoredSlice, String> {
                self.read_n(d, d.len(), NonZeroUsize::MAX).map_err(estr)
            }
            fn feed_held(&mut self, a: AnchoredSlice) -> Result<(), String> {
                self.encode_anchored(a);
                Ok(())
            }
            fn feed_from(&mut self, other: &mut ByteArena, d: &[u8]) -> Result<(), String> {
                let a = other.read_n(d, d.len(), NonZeroUsize::MAX).map_err(estr)?;
                self.encode_anchored(a);
                Ok(())
            }
            fn finish(self) -> Result<OwningIovec<'a>, String> {
                Ok(<$t>::finish(self))
            }
        }
    };
}

impl_encoder!(
    Encoder<'a>,
    |this: &mut Encoder<'a>, d: &[u8]| -> Result<(), String> {
        let n = this.encode_read(d, d.len(), NonZeroUsize::MAX).map_err(estr)?;
        if n != d.len() {
            return Err("harness: encode_read short".into());
        }
        Ok(())
    },
    |this: &mut Encoder<'a>| -> Result<(), String> {
        match this.encode_read(&b""[..], 7, NonZeroUsize::MAX) {
            Ok(0) => Ok(()),
            Ok(_) => Err("harness: bytes from an empty reader".into()),
            Err(e) => Err(estr(e)),
        }
    }
);
impl_encoder!(
    LimitEncoder<'a>,
    |this: &mut LimitEncoder<'a>, d: &[u8]| -> Result<(), String> { this.feed_anchored(d) },
    |this: &mut LimitEncoder<'a>| -> Result<(), String> {
        let a = this.read_n(&b""[..], 7, NonZeroUsize::MAX).map_err(estr)?;
        this.feed_held(a)
    }
);

macro_rules! impl_decoder {
    ($t:ty, $read:expr, $take:expr, $eof:expr) => {
        impl<'a> Codec<'a> for $t {
            fn consumer(&mut self) -> ConsumingIovec<'_> {
                <$t>::consumer(self)
            }
            fn feed_borrow(&mut self, d: &'a [u8]) -> Result<(), String> {
                self.decode(d).map_err(estr)
            }
            fn feed_copy(&mut self, d: &[u8]) -> Result<(), String> {
                self.decode_copy(d).map_err(estr)
            }
            fn feed_anchored(&mut self, d: &[u8]) -> Result<(), String> {
                let a = self.read_n(d, d.len(), NonZeroUsize::MAX).map_err(estr)?;
                if a.slice() != d {
                    return Err("harness: read_n returned other bytes".into());
                }
                self.decode_anchored(a).map_err(estr)
            }
            fn feed_read(&mut self, d: &[u8]) -> Result<(), String> {
                $read(self, d)
            }
            fn feed_eof(&mut self) -> Result<(), String> {
                $eof(self)
            }
            fn feed_flaky(&mut self, d: &[u8], sched: Vec<i64>) -> Result<(), String> {
                let mut rd = crate::stream::ScriptReader { data: d, pos: 0, sched, idx: 0, calls: 0 };
                let mut fuel = 20 * d.len() + 100;
                while rd.pos < d.len() && fuel > 0 {
                    fuel -= 1;
                    let want = d.len() - rd.pos;
                    match self.read_n(&mut rd, want, NonZeroUsize::new(2).unwrap()) {
                        Ok(a) => self.feed_held(a)?,
                        Err(e) if e.kind() == std::io::ErrorKind::Interrupted => {}
                        Err(e) => return Err(estr(e)),
                    }
                }
                if rd.pos < d.len() {
                    return Err("harness: flaky reader made no progress".into());
                }
                Ok(())
            }
            fn read_ahead(&mut self, d: &[u8]) -> Result<AnchoredSlice, String> {
                self.read_n(d, d.len(), NonZeroUsize::MAX).map_err(estr)
            }
            fn feed_held(&mut self, a: AnchoredSlice) -> Result<(), String> {
                self.decode_anchored(a).map_err(estr)
            }
            fn feed_from(&mut self, other: &mut ByteArena, d: &[u8]) -> Result<(), String> {
                let a = other.read_n(d, d.len(), NonZeroUsize::MAX).map_err(estr)?;
                self.decode_anchored(a).map_err(estr)
            }
            fn finish(self) -> Result<OwningIovec<'a>, String> {
                <$t>::finish(self).map_err(estr)
            }
            fn take_iovec(self) -> Result<OwningIovec<'a>, String> {
                $take(self)
            }
        }
    };
}

impl_decoder!(
    Decoder<'a>,
    |this: &mut Decoder<'a>, d: &[u8]| -> Result<(), String> { this.decode_read(d, d.len(), NonZeroUsize::MAX).map(|_| ()).map_err(estr) },
    |this: Decoder<'a>| -> Result<OwningIovec<'a>, String> { Ok(this.take_iovec()) },
    |this: &mut Decoder<'a>| -> Result<(), String> {
        match this.decode_read(&b""[..], 7, NonZeroUsize::MAX) {
            Ok(0) => Ok(()),
            Ok(_) => Err("harness: bytes from an empty reader".into()),
            Err(e) => Err(estr(e)),
        }
    }
);
impl_decoder!(
    LimitDecoder<'a>,
    |this: &mut LimitDecoder<'a>, d: &[u8]| -> Result<(), String> { this.feed_anchored(d) },
    |_this: LimitDecoder<'a>| -> Result<OwningIovec<'a>, String> { Err("harness: LimitDecoder has no take_iovec".into()) },
    |this: &mut LimitDecoder<'a>| -> Result<(), String> {
        let a = this.read_n(&b""[..], 7, NonZeroUsize::MAX).map_err(estr)?;
        this.feed_held(a)
    }
);

const PRE_FILL: u8 = 0xAB;

fn bytes_of(v: &Value) -> Vec<u8> {
    v.as_array().map(|a| a.iter().map(|x| x.as_u64().unwrap() as u8).collect()).unwrap_or_default()
}

struct Obs {
    dangling: usize,
    total: usize,
    stable: usize,
    nsl: usize,
    pending: bool,
    sb: Vec<u8>,
    lens: Vec<usize>,
}

thread_local! {
    /// address range of the buffer the harness lends to the codec in the current phase
    static LENT: std::cell::Cell<(usize, usize)> = const { std::cell::Cell::new((0, 0)) };
    /// ... and of the bytes lent to the pre-populated OwningIovec of the run
    static LENT_PRE: std::cell::Cell<(usize, usize)> = const { std::cell::Cell::new((0, 0)) };
}

/// Is [addr, addr+len) inside a live arena chunk (registry of hook H2) or the lent input buffer?
fn is_live(addr: usize, len: usize, chunks: &[(u64, usize, usize)]) -> bool {
    if len == 0 {
        return true;
    }
    let (b, l) = LENT.with(|c| c.get());
    if addr >= b && addr + len <= b + l {
        return true;
    }
    let (b, l) = LENT_PRE.with(|c| c.get());
    if addr >= b && addr + len <= b + l {
        return true;
    }
    chunks.iter().any(|(_, base, clen)| addr >= *base && addr + len <= base + clen)
}

fn observe(c: &ConsumingIovec<'_>, full: bool) -> Obs {
    let sp = c.stable_prefix();
    let chunks = owning_iovec::verif::live_chunks();
    let dangling = sp.iter().filter(|s| !is_live(s.as_ptr() as usize, s.len(), &chunks)).count();
    let mut sb = Vec::new();
    let mut stable = 0;
    let mut lens = Vec::new();
    for s in sp {
        stable += s.len();
        lens.push(s.len());
        if full && dangling == 0 {
            sb.extend_from_slice(s);
        }
    }
    Obs { dangling, total: c.total_size(), stable, nsl: sp.len(), pending: c.has_pending_backrefs(), sb, lens }
}

fn put_obs(o: &mut Map<String, Value>, ob: &Obs, full: bool) {
    o.insert("dangling".into(), json!(ob.dangling));
    o.insert("total".into(), json!(ob.total));
    o.insert("stable".into(), json!(ob.stable));
    o.insert("nsl".into(), json!(ob.nsl));
    o.insert("pending".into(), json!(ob.pending as u8));
    o.insert("full".into(), json!(full as u8));
    o.insert("sb".into(), json!(ob.sb));
    o.insert("live".into(), json!(ByteArena::num_live_bytes()));
    o.insert("empty_slice".into(), json!(ob.lens.iter().any(|l| *l == 0) as u8));
}

/// Runs one codec phase.  Returns the complete output (drained ++ rest) if it finished Ok.
fn run_phase<'a, C: Codec<'a>>(
    mut c: C,
    input: &'a [u8],
    ops: &mut std::slice::Iter<'_, Value>,
    run: i64,
    phase: &str,
    full: bool,
    out: &mut Trace,
    // a placeholder the caller registered in the iovec before handing it to the codec; filled when the codec is done
    mut pre_tok: Option<Backref>,
) -> Option<Vec<u8>> {
    let mut pos = 0usize;
    let mut all: Vec<u8> = Vec::new();
    // the producer's own arena for method "shared": lives across feeds, goes away at "drop_shared" / before finish
    let mut shared: Option<ByteArena> = None;
    // method "ahead": the piece read by the previous "ahead" feed, not given to the codec yet
    let mut held: Option<AnchoredSlice> = None;
    LENT.with(|c| c.set((input.as_ptr() as usize, input.len())));
    let flush_op = json!({"ev": "feed", "m": "copy", "n": 0});
    loop {
        // a piece read ahead is given to the codec (as a feed of its own) before the phase ends
        let ends = matches!(ops.as_slice().first().map(|o| gets(o, "ev")), Some("finish") | Some("take_iovec"));
        let op = if ends && held.is_some() {
            &flush_op
        } else {
            match ops.next() {
                Some(op) => op,
                None => break,
            }
        };
        let ev = gets(op, "ev");
        let mut e = Map::new();
        e.insert("run".into(), json!(run));
        e.insert("ev".into(), json!(ev));
        e.insert("ph".into(), json!(phase));
        if (ev == "drop_shared" || ev == "finish" || ev == "take_iovec") && shared.take().is_some() {
            // the producer's arena is gone: everything buffered must still be backed
            let mut e2 = Map::new();
            e2.insert("run".into(), json!(run));
            e2.insert("ev".into(), json!("flush"));
            e2.insert("ph".into(), json!(phase));
            e2.insert("panic".into(), json!(""));
            match guarded(|| observe(&c.consumer(), full)) {
                Ok(ob) => put_obs(&mut e2, &ob, full),
                Err(p) => {
                    e2.insert("panic".into(), json!(p));
                    put_obs(&mut e2, &Obs { dangling: 0, total: 0, stable: 0, nsl: 0, pending: false, sb: vec![], lens: vec![] }, full);
                }
            }
            out.emit(&Value::Object(e2));
        }
        match ev {
            "feed" => {
                let want = geti(op, "n");
                let left = input.len() - pos;
                let n = if want < 0 { left } else { (want as usize).min(left) };
                let m = gets(op, "m");
                let piece = &input[pos..pos + n];
                pos += n;
                let mut n = n;
                let r = guarded(|| {
                    if m == "ahead" {
                        // read this piece now, give the codec the piece read by the previous "ahead" feed
                        let a = c.read_ahead(piece)?;
                        if a.slice() != piece {
                            return Err("harness: read_n returned other bytes".into());
                        }
                        n = 0;
                        if let Some(prev) = held.replace(a) {
                            n = prev.slice().len();
                            c.feed_held(prev)?;
                        }
                        return Ok(());
                    }
                    if let Some(prev) = held.take() {
                        n += prev.slice().len();
                        c.feed_held(prev)?;
                    }
                    match m {
                        "borrow" => c.feed_borrow(piece),
                        "copy" => c.feed_copy(piece),
                        "anchored" => c.feed_anchored(piece),
                        "read" => c.feed_read(piece),
                        "foreign" => c.feed_foreign(piece),
                        "shared" => c.feed_from(shared.get_or_insert_with(ByteArena::new), piece),
                        "eof" => c.feed_eof(),
                        "split" => {
                            // an arena read split in two: the first half goes in as an AnchoredSlice, the second by copy
                            let a = c.read_ahead(piece)?;
                            let (l, r) = a.split_at(piece.len() / 2);
                            c.feed_held(l)?;
                            let right = r.slice().to_vec();
                            drop(r);
                            c.feed_copy(&right)
                        }
                        "flaky" => c.feed_flaky(
                            piece,
                            op["sched"].as_array().map(|a| a.iter().map(|x| x.as_i64().unwrap()).collect()).unwrap_or_else(|| vec![1, 0, 2, 0, 0, 3]),
                        ),
                        _ => panic!("harness: unknown feed method {m}"),
                    }
                });
                e.insert("m".into(), json!(m));
                e.insert("n".into(), json!(n));
                let (err, pan) = match r {
                    Ok(Ok(())) => (String::new(), String::new()),
                    Ok(Err(s)) => (s, String::new()),
                    Err(p) => (String::new(), p),
                };
                e.insert("err".into(), json!(err));
                e.insert("panic".into(), json!(pan));
                if !pan.is_empty() {
                    put_obs(&mut e, &Obs { dangling: 0, total: 0, stable: 0, nsl: 0, pending: false, sb: vec![], lens: vec![] }, full);
                    out.emit(&Value::Object(e));
                    return None;
                }
                match guarded(|| observe(&c.consumer(), full)) {
                    Ok(ob) => put_obs(&mut e, &ob, full),
                    Err(p) => {
                        e.insert("panic".into(), json!(format!("accessor panic: {p}")));
                        put_obs(&mut e, &Obs { dangling: 0, total: 0, stable: 0, nsl: 0, pending: false, sb: vec![], lens: vec![] }, full);
                        out.emit(&Value::Object(e));
                        return None;
                    }
                }
                out.emit(&Value::Object(e));
                if !err.is_empty() {
                    // rejected.  What was decoded so far stays readable through the consumer: look at it
                    // once more after the arena moved on (a legitimate public operation)
                    let mut e2 = Map::new();
                    e2.insert("run".into(), json!(run));
                    e2.insert("ev".into(), json!("flush"));
                    e2.insert("ph".into(), json!(phase));
                    e2.insert("panic".into(), json!(""));
                    let r = guarded(|| {
                        c.consumer().arena().flush_cache();
                        c.consumer().arena().ensure_capacity(5000);
                        observe(&c.consumer(), full)
                    });
                    match r {
                        Ok(ob) => put_obs(&mut e2, &ob, full),
                        Err(p) => {
                            e2.insert("panic".into(), json!(p));
                            put_obs(&mut e2, &Obs { dangling: 0, total: 0, stable: 0, nsl: 0, pending: false, sb: vec![], lens: vec![] }, full);
                        }
                    }
                    out.emit(&Value::Object(e2));
                    // the stream is dead, report the verdict
                    out.emit(&json!({"run":run,"ev":"finish","ph":phase,"ok":0,"err":"rejected by feed","panic":"","rest":[]}));
                    return None;
                }
            }
            "drain" => {
                let mode = gets(op, "mode");
                let n = geti(op, "n") as usize;
                let before = match guarded(|| observe(&c.consumer(), true)) {
                    Ok(b) => b,
                    Err(p) => {
                        for k in ["n", "nsl_before", "stable_before", "total_before", "ret"] {
                            e.insert(k.into(), json!(0));
                        }
                        e.insert("mode".into(), json!(mode));
                        e.insert("req".into(), json!([]));
                        e.insert("got".into(), json!([]));
                        e.insert("panic".into(), json!(format!("accessor panic: {p}")));
                        put_obs(&mut e, &Obs { dangling: 0, total: 0, stable: 0, nsl: 0, pending: false, sb: vec![], lens: vec![] }, full);
                        out.emit(&Value::Object(e));
                        return None;
                    }
                };
                // the region the call is asked to remove, from the arguments and the observed pre-state
                let region_len = match mode {
                    "slices" => before.lens.iter().take(n).sum::<usize>(),
                    _ => n.min(before.stable),
                };
                // (empty when the pre-state had dangling slices: their bytes are not read)
                let req = before.sb.get(..region_len).unwrap_or(&[]).to_vec();
                let mut got: Vec<u8> = Vec::new();
                let r = guarded(|| match mode {
                    "slices" => c.consumer().consume(n),
                    "bytes" => c.consumer().advance_slices(n),
                    "read" => {
                        use std::io::Read;
                        let mut buf = vec![0u8; n];
                        let k = c.consumer().read(&mut buf).expect("ConsumingIovec::read is infallible");
                        buf.truncate(k);
                        got = buf;
                        k
                    }
                    _ => panic!("harness: unknown drain mode {mode}"),
                });
                e.insert("mode".into(), json!(mode));
                e.insert("n".into(), json!(n));
                e.insert("nsl_before".into(), json!(before.nsl));
                e.insert("stable_before".into(), json!(before.stable));
                e.insert("total_before".into(), json!(before.total));
                e.insert("req".into(), json!(req));
                e.insert("got".into(), json!(got));
                match r {
                    Ok(k) => {
                        e.insert("ret".into(), json!(k));
                        e.insert("panic".into(), json!(""));
                        all.extend_from_slice(&req);
                        match guarded(|| observe(&c.consumer(), full)) {
                            Ok(ob) => put_obs(&mut e, &ob, full),
                            Err(p) => {
                                e.insert("panic".into(), json!(format!("accessor panic: {p}")));
                                put_obs(&mut e, &Obs { dangling: 0, total: 0, stable: 0, nsl: 0, pending: false, sb: vec![], lens: vec![] }, full);
                                out.emit(&Value::Object(e));
                                return None;
                            }
                        }
                        out.emit(&Value::Object(e));
                    }
                    Err(p) => {
                        e.insert("ret".into(), json!(0));
                        e.insert("panic".into(), json!(p));
                        put_obs(&mut e, &Obs { dangling: 0, total: 0, stable: 0, nsl: 0, pending: false, sb: vec![], lens: vec![] }, full);
                        out.emit(&Value::Object(e));
                        return None;
                    }
                }
            }
            "flush" => {
                e.insert("panic".into(), json!(""));
                let r = guarded(|| {
                    c.consumer().arena().flush_cache();
                    observe(&c.consumer(), full)
                });
                match r {
                    Ok(ob) => put_obs(&mut e, &ob, full),
                    Err(p) => {
                        e.insert("panic".into(), json!(p));
                        put_obs(&mut e, &Obs { dangling: 0, total: 0, stable: 0, nsl: 0, pending: false, sb: vec![], lens: vec![] }, full);
                        out.emit(&Value::Object(e));
                        return None;
                    }
                }
                out.emit(&Value::Object(e));
            }
            "drop_shared" => {}
            "finish" | "take_iovec" => {
                let take = ev == "take_iovec";
                let r = guarded(move || {
                    let fin = if take { c.take_iovec() } else { c.finish() };
                    fin.map(|mut iov| {
                        if let Some(tok) = pre_tok.take() {
                            let fill = vec![PRE_FILL; tok.len()];
                            iov.backfill_or_panic(tok, &fill);
                        }
                        let pending = iov.has_pending_backrefs();
                        let rest = match iov.flatten() {
                            Ok(v) => v,
                            Err(v) => v,
                        };
                        (pending, rest)
                    })
                });
                let (ok, err, pan, rest, pending) = match r {
                    Ok(Ok((pending, rest))) => (1, String::new(), String::new(), rest, pending),
                    Ok(Err(s)) => (0, s, String::new(), vec![], false),
                    Err(p) => (0, String::new(), p, vec![], false),
                };
                e.insert("ok".into(), json!(ok));
                e.insert("err".into(), json!(err));
                e.insert("panic".into(), json!(pan));
                e.insert("pending".into(), json!(pending as u8));
                e.insert("fed".into(), json!(pos));
                e.insert("rest".into(), json!(rest));
                out.emit(&Value::Object(e));
                if ok == 1 {
                    all.extend_from_slice(&rest);
                    return Some(all);
                }
                return None;
            }
            _ => panic!("harness: unknown codec op {ev}"),
        }
    }
    None
}

pub fn drive_codec(ops: &str, trace: &str) {
    let runs = read_runs(ops);
    let mut out = Trace::create(trace);
    for run in &runs {
        let kind = gets(&run.cfg, "kind").to_string();
        let l1 = geti(&run.cfg, "l1") as usize;
        let l2 = geti(&run.cfg, "l2") as usize;
        let prod = run.cfg["prod"].as_bool().unwrap_or(false);
        let full = run.cfg["full"].as_bool().unwrap_or(true);
        let input = bytes_of(&run.cfg["input"]);
        // "pre": bytes already in the OwningIovec handed to Encoder/Decoder::new_from_iovec (production codec only)
        let pre = bytes_of(&run.cfg["pre"]);
        let pre_borrow = run.cfg["pre_m"].as_str() == Some("borrow");
        LENT_PRE.with(|c| c.set((pre.as_ptr() as usize, pre.len())));
        fn with_pre(pre: &[u8], borrow: bool, hole: usize) -> (OwningIovec<'_>, Option<Backref>) {
            let mut iov = OwningIovec::new();
            let tok = if hole > 0 { Some(iov.register_patch(&vec![0u8; hole])) } else { None };
            if borrow {
                iov.push_borrowed(pre);
            } else {
                iov.push_copy(pre);
            }
            (iov, tok)
        }
        let pre_hole = if pre.is_empty() { 0 } else { run.cfg["pre_hole"].as_u64().unwrap_or(0) as usize };
        // (what the iovec holds before the codec's output, once the caller's placeholder is filled)
        let pre_full: Vec<u8> = std::iter::repeat(PRE_FILL).take(pre_hole).chain(pre.iter().copied()).collect();
        out.emit(&json!({"run":run.run,"ev":"reset","kind":kind,"l1":l1,"l2":l2,"prod":prod as u8,"pre":pre_full,"pre_hole":pre_hole,
                         "iid":run.cfg["iid"].as_i64().unwrap_or(0),"input":input,
                         "live":ByteArena::num_live_bytes(),"chunks":ByteArena::num_live_chunks()}));
        let mut it = run.ops.iter();
        let encoded: Option<Vec<u8>> = if kind == "enc" || kind == "rt" {
            if prod {
                let (enc, tok) = if pre.is_empty() {
                    (Encoder::new(), None)
                } else {
                    let (iov, tok) = with_pre(&pre, pre_borrow, pre_hole);
                    (Encoder::new_from_iovec(iov), tok)
                };
                run_phase(enc, &input, &mut it, run.run, "enc", full, &mut out, tok).map(|all| all[pre_full.len().min(all.len())..].to_vec())
            } else {
                run_phase(LimitEncoder::new(l1, l2), &input, &mut it, run.run, "enc", full, &mut out, None)
            }
        } else {
            Some(input.clone())
        };
        if kind == "dec" || kind == "rt" {
            if let Some(dinput) = encoded {
                if kind == "rt" {
                    out.emit(&json!({"run":run.run,"ev":"switch","dinput":dinput}));
                }
                if prod {
                    let (dec, tok) = if pre.is_empty() {
                        (Decoder::new(), None)
                    } else {
                        let (iov, tok) = with_pre(&pre, pre_borrow, pre_hole);
                        (Decoder::new_from_iovec(iov), tok)
                    };
                    run_phase(dec, &dinput, &mut it, run.run, "dec", full, &mut out, tok);
                } else {
                    run_phase(LimitDecoder::new(l1, l2), &dinput, &mut it, run.run, "dec", full, &mut out, None);
                }
            }
        }
        out.emit(&json!({"run":run.run,"ev":"end","live":ByteArena::num_live_bytes(),"chunks":ByteArena::num_live_chunks()}));
    }
    out.finish();
}
