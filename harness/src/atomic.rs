//! Driver for AtomicBaseTime (C13, C18) on top of hook H4.
//!
//! The real `snapshot` / `update` / `try_update` code runs against a *simulated* release/acquire
//! memory (per location a list of messages [val, view], per thread a view: the same rules as
//! specs/AtomicBaseTime.tla).  Threads are not OS threads: a thread's current call is advanced one
//! atomic operation at a time by re-executing the call from its start, replaying the responses of
//! its earlier operations, and unwinding (a private panic payload) when it reaches the next one.
//! The code under test only talks to the world through the hooked atomics / mutex, so this is exact,
//! deterministic, and needs no real concurrency.
//!
//! Run cfg: {"programs": [[["upd",v] | ["try",v] | ["snap"] | ["bad",v], ...], ...], "sc": bool,
//!           "seed": n, "steps": [[t, label, rf], ...] (optional script from the TLC graph),
//!           "park_after": k (optional: after k random steps only threads in `solo` are scheduled), "solo": [t,...]}
use crate::util::*;
use serde_json::{json, Value};
use std::cell::RefCell;
use std::collections::HashMap;
use std::rc::Rc;
use std::sync::atomic::Ordering;
use vouched_time::verif_sync::{set_scheduler, Scheduler};
use vouched_time::AtomicBaseTime;

const VOUCH: raffle::VouchingParameters =
    raffle::VouchingParameters::parse_or_die("VOUCH-773ec2a0e62c20cd-f9e079b78e895091-fc1da7b1b77c57cb-594b9cce3091464a");

fn bits(v: raffle::Voucher) -> u64 {
    unsafe { std::mem::transmute(v) }
}

struct Suspend;

#[derive(Clone, Debug, PartialEq)]
enum Op {
    Load(usize, &'static str, u64), // address, ordering, the real std value (used only for locations outside the instance)
    Store(usize, &'static str, u64),
    Lock(usize, bool),
    ClearPoison(usize),
    Unlock(usize, bool),
}

#[derive(Clone, Copy, Debug)]
enum Resp {
    Val(u64),
    Unit,
    Lock(bool, bool),
}

fn ord_name(o: Ordering) -> &'static str {
    match o {
        Ordering::Relaxed => "rlx",
        Ordering::Acquire => "acq",
        Ordering::Release => "rel",
        Ordering::AcqRel => "acqrel",
        _ => "sc",
    }
}

/// The per-execution replay scheduler registered through hook H4.
struct Replayer {
    log: Rc<RefCell<Vec<Resp>>>,
    idx: usize,
    pending: Rc<RefCell<Option<Op>>>,
    suspending: Rc<RefCell<bool>>,
    trailing: Rc<RefCell<Vec<Op>>>, // unlocks performed while unwinding from a genuine panic
}

impl Replayer {
    fn next(&mut self, op: Op) -> Resp {
        if *self.suspending.borrow() {
            return Resp::Unit;
        }
        let i = self.idx;
        self.idx += 1;
        let logged = self.log.borrow().get(i).copied();
        match logged {
            Some(r) => r,
            None => {
                *self.pending.borrow_mut() = Some(op);
                *self.suspending.borrow_mut() = true;
                std::panic::panic_any(Suspend);
            }
        }
    }
}

impl Scheduler for Replayer {
    fn load(&mut self, addr: usize, order: Ordering, real: u64) -> u64 {
        match self.next(Op::Load(addr, ord_name(order), real)) {
            Resp::Val(v) => v,
            _ => 0,
        }
    }
    fn store(&mut self, addr: usize, order: Ordering, value: u64) {
        self.next(Op::Store(addr, ord_name(order), value));
    }
    fn lock(&mut self, addr: usize, blocking: bool) -> (bool, bool) {
        match self.next(Op::Lock(addr, blocking)) {
            Resp::Lock(a, p) => (a, p),
            _ => (true, false),
        }
    }
    fn clear_poison(&mut self, addr: usize) {
        self.next(Op::ClearPoison(addr));
    }
    fn unlock(&mut self, addr: usize, panicking: bool) {
        if *self.suspending.borrow() {
            return;
        }
        if panicking {
            // a genuine panic is unwinding through a held guard: the release happens as part of the
            // call's completion (it is not a scheduling point)
            self.trailing.borrow_mut().push(Op::Unlock(addr, true));
            return;
        }
        self.next(Op::Unlock(addr, false));
    }
}

#[derive(Clone, Debug)]
enum Call {
    Snap,
    Upd(u64),
    Try(u64),
    Bad(u64), // update with a voucher for another value: panics inside the critical section
    Unlocked, // nfs_voucher::get_base_time_unlocked on the process-wide static (C18: it never touches a lock)
}

enum Outcome {
    Pending(Op),
    Done(Value, Vec<Op>), // return value (json), trailing unlocks
}

fn run_call(abt: &AtomicBaseTime, call: &Call, log: &Rc<RefCell<Vec<Resp>>>, known: &HashMap<u64, u64>) -> Outcome {
    let pending = Rc::new(RefCell::new(None));
    let suspending = Rc::new(RefCell::new(false));
    let trailing = Rc::new(RefCell::new(Vec::new()));
    let rep = Replayer { log: log.clone(), idx: 0, pending: pending.clone(), suspending: suspending.clone(), trailing: trailing.clone() };
    let prev = set_scheduler(Some(Box::new(rep)));
    let r = std::panic::catch_unwind(std::panic::AssertUnwindSafe(|| match call {
        Call::Snap => {
            let (b, v) = abt.snapshot();
            let vb = bits(v);
            // which base time do these voucher bits vouch for (among the values this run uses)?
            json!({"k": "snap", "base": b, "vid": known.get(&vb).map(|x| *x as i64).unwrap_or(-1)})
        }
        Call::Upd(x) => {
            abt.update((*x, VOUCH.vouch(*x)));
            json!({"k": "upd", "val": x})
        }
        Call::Try(x) => {
            let ok = abt.try_update((*x, VOUCH.vouch(*x)));
            json!({"k": "try", "val": x, "ok": ok as u8})
        }
        Call::Bad(x) => {
            abt.update((*x, VOUCH.vouch(x.wrapping_add(1))));
            json!({"k": "bad", "val": x})
        }
        Call::Unlocked => {
            let (b, _) = vouched_time::nfs_voucher::get_base_time_unlocked(time::OffsetDateTime::UNIX_EPOCH).expect("_unlocked does not fail");
            json!({"k": "unlocked", "base": b})
        }
    }));
    set_scheduler(prev);
    match r {
        Ok(v) => Outcome::Done(v, trailing.borrow().clone()),
        Err(e) => {
            if e.downcast_ref::<Suspend>().is_some() {
                Outcome::Pending(pending.borrow_mut().take().expect("pending op"))
            } else {
                let msg = if let Some(s) = e.downcast_ref::<&str>() {
                    s.to_string()
                } else if let Some(s) = e.downcast_ref::<String>() {
                    s.clone()
                } else {
                    "panic".to_string()
                };
                let msg: String = msg.chars().filter(|c| c.is_ascii_graphic() || *c == ' ').filter(|c| *c != '"' && *c != '\\').take(120).collect();
                Outcome::Done(json!({"k": "panic", "msg": msg}), trailing.borrow().clone())
            }
        }
    }
}

struct Msg {
    val: u64,
    view: Vec<usize>,
}

struct Sim {
    names: HashMap<usize, usize>, // address -> location index (0 = lock, 1.. = atomics in layout order)
    mem: Vec<Vec<Msg>>,
    tv: Vec<Vec<usize>>,
    holder: Option<usize>,
    lock_view: Vec<usize>,
    poisoned: bool,
    sc: bool,
}

const NLOC: usize = 6; // lock, seq, b0, v0, b1, v1
const LOC_NAMES: [&str; NLOC] = ["L", "seq", "b0", "v0", "b1", "v1"];

impl Sim {
    fn join(a: &mut [usize], b: &[usize]) {
        for i in 0..a.len() {
            if b[i] > a[i] {
                a[i] = b[i];
            }
        }
    }
}

struct XorShift(u64);
impl XorShift {
    fn next(&mut self) -> u64 {
        self.0 ^= self.0 << 13;
        self.0 ^= self.0 >> 7;
        self.0 ^= self.0 << 17;
        self.0
    }
    fn below(&mut self, n: usize) -> usize {
        (self.next() % n as u64) as usize
    }
}

/// Learns the offsets of the lock and the five atomics inside an AtomicBaseTime from one sequential
/// update on a scratch instance; also the (location, kind, ordering) skeleton of every method.
fn calibrate() -> (HashMap<usize, usize>, Value) {
    let abt = Box::new(AtomicBaseTime::new());
    let base = &*abt as *const AtomicBaseTime as usize;
    let mut offsets: HashMap<usize, usize> = HashMap::new();
    let known: HashMap<u64, u64> = HashMap::new();
    let mut skeleton = serde_json::Map::new();
    let seq_of = |call: &Call, pre: &[(usize, Resp)]| -> Vec<Op> {
        // run the call sequentially against trivial responses, recording the operations
        let log = Rc::new(RefCell::new(Vec::new()));
        let mut ops = Vec::new();
        let _ = pre;
        loop {
            match run_call(&abt, call, &log, &known) {
                Outcome::Pending(op) => {
                    let r = match &op {
                        Op::Load(_, _, _) => {
                            // Every load answers 0 (sequence 0, base time 0).  A voucher word of 0 makes the
                            // snapshot's own check panic AFTER its loads, which is all the probe needs; answering by
                            // position instead would be confused by code that loads in another order.
                            Resp::Val(0)
                        }
                        Op::Lock(_, _) => Resp::Lock(true, false),
                        _ => Resp::Unit,
                    };
                    ops.push(op);
                    log.borrow_mut().push(r);
                }
                Outcome::Done(_, _) => return ops,
            }
        }
    };
    // Roles are recognised by behaviour, not by position in one fixed sequence (the code may have been
    // changed): snapshot on a fresh instance loads seq, then the voucher and base of slot 0, then seq;
    // an update from sequence 0 takes the lock and stores base then voucher of slot 1, then seq.
    let snap_ops = seq_of(&Call::Snap, &[]);
    let mut loads: Vec<usize> = Vec::new(); // distinct load addresses in order of first use
    for o in &snap_ops {
        if let Op::Load(a, _, _) = o {
            if !loads.contains(a) {
                loads.push(*a);
            }
        }
    }
    if loads.len() >= 3 {
        offsets.insert(loads[0] - base, 1); // seq
        offsets.insert(loads[1] - base, 3); // v0
        offsets.insert(loads[2] - base, 2); // b0
    }
    let ops = seq_of(&Call::Upd(5), &[]);
    for o in &ops {
        if let Op::Lock(a, _) = o {
            offsets.entry(a - base).or_insert(0);
        }
    }
    let mut fresh = Vec::new();
    for o in &ops {
        if let Op::Store(a, _, _) = o {
            if !offsets.contains_key(&(a - base)) && !fresh.contains(a) {
                fresh.push(*a);
            }
        }
    }
    if fresh.len() >= 2 {
        offsets.insert(fresh[0] - base, 4); // b1
        offsets.insert(fresh[1] - base, 5); // v1
    }
    let describe = |ops: &[Op]| -> Vec<Value> {
        ops.iter()
            .map(|o| match o {
                Op::Load(a, ord, _) => json!(["load", offsets.get(&(a - base)).map(|i| LOC_NAMES[*i]).unwrap_or("?"), ord]),
                Op::Store(a, ord, _) => json!(["store", offsets.get(&(a - base)).map(|i| LOC_NAMES[*i]).unwrap_or("?"), ord]),
                Op::Lock(_, b) => json!([if *b { "lock" } else { "try_lock" }, "L", ""]),
                Op::ClearPoison(_) => json!(["clear_poison", "L", ""]),
                Op::Unlock(_, _) => json!(["unlock", "L", ""]),
            })
            .collect()
    };
    skeleton.insert("update".into(), json!(describe(&ops)));
    skeleton.insert("try_update".into(), json!(describe(&seq_of(&Call::Try(5), &[]))));
    skeleton.insert("snapshot".into(), json!(describe(&seq_of(&Call::Snap, &[]))));
    (offsets, Value::Object(skeleton))
}

pub fn drive_atomic(ops: &str, trace: &str) {
    let runs = read_runs(ops);
    let mut out = Trace::create(trace);
    // the replay machinery unwinds constantly: keep the panic hook quiet in this engine
    std::panic::set_hook(Box::new(|i| { if std::env::var("WP_DEBUG").is_ok() { eprintln!("PANIC {i}"); } }));
    let (offsets, skeleton) = calibrate();
    for run in &runs {
        let programs: Vec<Vec<Call>> = run.cfg["programs"]
            .as_array()
            .unwrap()
            .iter()
            .map(|p| {
                p.as_array()
                    .unwrap()
                    .iter()
                    .map(|c| {
                        let v = c.get(1).and_then(|x| x.as_u64()).unwrap_or(0);
                        match c[0].as_str().unwrap() {
                            "snap" => Call::Snap,
                            "upd" => Call::Upd(v),
                            "try" => Call::Try(v),
                            "bad" => Call::Bad(v),
                            "unlocked" => Call::Unlocked,
                            k => panic!("harness: call {k}"),
                        }
                    })
                    .collect()
            })
            .collect();
        let nthreads = programs.len();
        let sc = run.cfg["sc"].as_bool().unwrap_or(false);
        let mut rng = XorShift(run.cfg["seed"].as_u64().unwrap_or(1).wrapping_mul(0x9E3779B97F4A7C15) | 1);
        // rf selector in a script: >= 1 explicit message index, -1 the oldest message the thread may read, -2 the newest
        let script: Vec<(usize, String, i64)> = run.cfg["steps"]
            .as_array()
            .map(|a| a.iter().map(|s| (s[0].as_u64().unwrap() as usize, s[1].as_str().unwrap().to_string(), s[2].as_i64().unwrap())).collect())
            .unwrap_or_default();
        // "free" scripts only say which thread takes its next step (grid of suspension points): no labels to compare
        let free = run.cfg["free_script"].as_bool().unwrap_or(false);
        let park_after = run.cfg["park_after"].as_i64().unwrap_or(-1);
        let solo: Vec<usize> = run.cfg["solo"].as_array().map(|a| a.iter().map(|x| x.as_u64().unwrap() as usize).collect()).unwrap_or_default();

        let abt = Box::new(AtomicBaseTime::new());
        let base_addr = &*abt as *const AtomicBaseTime as usize;
        let mut known: HashMap<u64, u64> = HashMap::new();
        known.insert(bits(VOUCH.vouch(0)), 0);
        for p in &programs {
            for c in p {
                if let Call::Upd(v) | Call::Try(v) | Call::Bad(v) = c {
                    known.insert(bits(VOUCH.vouch(*v)), *v);
                }
            }
        }
        let mut sim = Sim {
            names: offsets.iter().map(|(o, i)| (base_addr + o, *i)).collect(),
            mem: (0..NLOC).map(|i| vec![Msg { val: if i == 3 || i == 5 { bits(VOUCH.vouch(0)) } else { 0 }, view: vec![1; NLOC] }]).collect(),
            tv: vec![vec![1; NLOC]; nthreads],
            holder: None,
            lock_view: vec![1; NLOC],
            poisoned: false,
            sc,
        };
        out.emit(&json!({"run":run.run,"ev":"reset","threads":nthreads,"sc":sc as u8,"skeleton":skeleton,
                         "programs":run.cfg["programs"]}));
        // per thread: index of the current call (or programs[t].len() when finished), its log, its pending op
        let mut k: Vec<usize> = vec![0; nthreads];
        let mut active: Vec<bool> = vec![false; nthreads];
        let mut logs: Vec<Rc<RefCell<Vec<Resp>>>> = (0..nthreads).map(|_| Rc::new(RefCell::new(Vec::new()))).collect();
        let mut pend: Vec<Option<Op>> = vec![None; nthreads];
        let mut nops: Vec<usize> = vec![0; nthreads];
        let mut step_no = 0i64;
        let mut script_pos = 0usize;
        let mut drifted = false;
        let budget = 400;
        loop {
            step_no += 1;
            if step_no > budget {
                out.emit(&json!({"run":run.run,"ev":"stuck","why":"step budget exhausted","parked": (park_after >= 0) as u8}));
                break;
            }
            let parked = park_after >= 0 && step_no > park_after;
            // runnable threads: have something to do and are not blocked on a held lock
            let runnable: Vec<usize> = (0..nthreads)
                .filter(|t| {
                    if parked && !solo.contains(&(t + 1)) {
                        return false;
                    }
                    if !active[*t] {
                        return k[*t] < programs[*t].len();
                    }
                    match &pend[*t] {
                        Some(Op::Lock(a, true)) => sim.holder.is_none() || !sim.names.contains_key(a),
                        _ => true,
                    }
                })
                .collect();
            if runnable.is_empty() {
                let waiting: Vec<usize> = (0..nthreads).filter(|t| active[*t] && (!parked || solo.contains(&(t + 1)))).map(|t| t + 1).collect();
                if !waiting.is_empty() {
                    // somebody we want to run is blocked on the lock while its holder is not running
                    let calls: Vec<Value> = waiting.iter().map(|t| json!(format!("{:?}", programs[t - 1][k[t - 1]]))).collect();
                    out.emit(&json!({"run":run.run,"ev":"blocked","threads":waiting,"calls":calls,"holder":sim.holder.map(|h| h + 1).unwrap_or(0),
                                     "parked":parked as u8}));
                }
                break;
            }
            // choose the thread (script first, else random)
            let (t, want_label, want_rf) = if !drifted && script_pos < script.len() {
                let (st, lab, rf) = script[script_pos].clone();
                script_pos += 1;
                if runnable.contains(&(st - 1)) {
                    (st - 1, if free { None } else { Some(lab) }, Some(rf))
                } else if free {
                    // that thread is blocked on the lock or has finished: the grid point is simply not reachable this way
                    step_no -= 1;
                    if script_pos >= script.len() && park_after < 0 {
                        break;
                    }
                    continue;
                } else {
                    drifted = true;
                    out.emit(&json!({"run":run.run,"ev":"drift","why":"scripted thread is not runnable","t":st,"label":lab}));
                    (runnable[rng.below(runnable.len())], None, None)
                }
            } else {
                (runnable[rng.below(runnable.len())], None, None)
            };
            if !active[t] {
                // begin the next call
                if let Some(l) = &want_label {
                    if l != "begin" {
                        drifted = true;
                        out.emit(&json!({"run":run.run,"ev":"drift","why":"script expects an operation, the thread is idle","t":t+1,"label":l}));
                    }
                }
                active[t] = true;
                logs[t] = Rc::new(RefCell::new(Vec::new()));
                nops[t] = 0;
                out.emit(&json!({"run":run.run,"ev":"begin","t":t+1,"call":run.cfg["programs"][t][k[t]]}));
                match run_call(&abt, &programs[t][k[t]], &logs[t], &known) {
                    Outcome::Pending(op) => pend[t] = Some(op),
                    Outcome::Done(v, tr) => {
                        finish(&mut out, run.run, t, v, tr, &mut sim, nops[t]);
                        active[t] = false;
                        k[t] += 1;
                    }
                }
                continue;
            }
            // commit the pending operation of thread t
            let op = pend[t].take().expect("active thread has a pending op");
            nops[t] += 1;
            let mut ev = serde_json::Map::new();
            ev.insert("run".into(), json!(run.run));
            ev.insert("ev".into(), json!("op"));
            ev.insert("t".into(), json!(t + 1));
            let resp = match &op {
                Op::Load(addr, ord, real) => {
                    let l = *sim.names.get(addr).unwrap_or(&usize::MAX);
                    if l == usize::MAX {
                        // an atomic outside the instance under test (e.g. the nfs_voucher static): not simulated
                        ev.insert("kind".into(), json!("load"));
                        ev.insert("loc".into(), json!("ext"));
                        ev.insert("ord".into(), json!(ord));
                        ev.insert("rf".into(), json!(0));
                        ev.insert("val".into(), json!(0));
                        out.emit(&Value::Object(ev));
                        logs[t].borrow_mut().push(Resp::Val(*real));
                        match run_call(&abt, &programs[t][k[t]], &logs[t], &known) {
                            Outcome::Pending(op) => pend[t] = Some(op),
                            Outcome::Done(v, tr) => {
                                finish(&mut out, run.run, t, v, tr, &mut sim, nops[t]);
                                active[t] = false;
                                k[t] += 1;
                            }
                        }
                        continue;
                    }
                    let lo = if sim.sc { sim.mem[l].len() } else { sim.tv[t][l] };
                    let hi = sim.mem[l].len();
                    let idx = match want_rf {
                        Some(-1) => lo,
                        Some(-2) => hi,
                        Some(rf) if rf >= lo as i64 && rf <= hi as i64 => rf as usize,
                        Some(_) => {
                            drifted = true;
                            lo + rng.below(hi - lo + 1)
                        }
                        None => {
                            // bias towards the extremes: stale and fresh reads are the interesting ones
                            match rng.below(4) {
                                0 => lo,
                                1 => hi,
                                _ => lo + rng.below(hi - lo + 1),
                            }
                        }
                    };
                    let val = sim.mem[l][idx - 1].val;
                    if idx > sim.tv[t][l] {
                        sim.tv[t][l] = idx;
                    }
                    if *ord == "acq" || *ord == "sc" || *ord == "acqrel" || sim.sc {
                        let mv = sim.mem[l][idx - 1].view.clone();
                        Sim::join(&mut sim.tv[t], &mv);
                    }
                    ev.insert("kind".into(), json!("load"));
                    ev.insert("loc".into(), json!(LOC_NAMES[l]));
                    ev.insert("ord".into(), json!(ord));
                    ev.insert("rf".into(), json!(idx));
                    ev.insert("val".into(), json!(known.get(&val).map(|x| *x as i64).unwrap_or(if l == 1 { val as i64 } else if l == 2 || l == 4 { val as i64 } else { -1 })));
                    Resp::Val(val)
                }
                Op::Store(addr, ord, val) => {
                    let l = *sim.names.get(addr).expect("known location");
                    let n = sim.mem[l].len() + 1;
                    sim.tv[t][l] = n;
                    let mut view = vec![1; NLOC];
                    view[l] = n;
                    if *ord == "rel" || *ord == "sc" || *ord == "acqrel" || sim.sc {
                        view = sim.tv[t].clone();
                    }
                    sim.mem[l].push(Msg { val: *val, view });
                    ev.insert("kind".into(), json!("store"));
                    ev.insert("loc".into(), json!(LOC_NAMES[l]));
                    ev.insert("ord".into(), json!(ord));
                    ev.insert("rf".into(), json!(0));
                    ev.insert("val".into(), json!(if l == 3 || l == 5 { known.get(val).map(|x| *x as i64).unwrap_or(-1) } else { *val as i64 }));
                    Resp::Unit
                }
                Op::Lock(addr, blocking) if !sim.names.contains_key(addr) => {
                    ev.insert("kind".into(), json!(if *blocking { "lock" } else { "try_lock" }));
                    ev.insert("loc".into(), json!("ext"));
                    ev.insert("ord".into(), json!(""));
                    ev.insert("rf".into(), json!(0));
                    ev.insert("val".into(), json!(1));
                    Resp::Lock(true, false)
                }
                Op::Unlock(addr, _) if !sim.names.contains_key(addr) => {
                    ev.insert("kind".into(), json!("unlock"));
                    ev.insert("loc".into(), json!("ext"));
                    ev.insert("ord".into(), json!(""));
                    ev.insert("rf".into(), json!(0));
                    ev.insert("val".into(), json!(0));
                    Resp::Unit
                }
                Op::Lock(_, blocking) => {
                    let free = sim.holder.is_none();
                    ev.insert("kind".into(), json!(if *blocking { "lock" } else { "try_lock" }));
                    ev.insert("loc".into(), json!("L"));
                    ev.insert("ord".into(), json!(""));
                    ev.insert("rf".into(), json!(0));
                    ev.insert("val".into(), json!(free as u8));
                    if free {
                        sim.holder = Some(t);
                        let lv = sim.lock_view.clone();
                        Sim::join(&mut sim.tv[t], &lv);
                        Resp::Lock(true, sim.poisoned)
                    } else {
                        assert!(!*blocking, "a blocked thread is never scheduled");
                        Resp::Lock(false, false)
                    }
                }
                Op::ClearPoison(_) => {
                    sim.poisoned = false;
                    ev.insert("kind".into(), json!("clear_poison"));
                    ev.insert("loc".into(), json!("L"));
                    ev.insert("ord".into(), json!(""));
                    ev.insert("rf".into(), json!(0));
                    ev.insert("val".into(), json!(0));
                    Resp::Unit
                }
                Op::Unlock(_, _) => {
                    ev.insert("kind".into(), json!("unlock"));
                    ev.insert("loc".into(), json!("L"));
                    ev.insert("ord".into(), json!(""));
                    ev.insert("rf".into(), json!(0));
                    ev.insert("val".into(), json!((sim.holder == Some(t)) as u8));
                    if sim.holder == Some(t) {
                        sim.holder = None;
                        sim.lock_view = sim.tv[t].clone();
                    }
                    Resp::Unit
                }
            };
            if let Some(l) = &want_label {
                ev.insert("label".into(), json!(l));
            }
            out.emit(&Value::Object(ev));
            logs[t].borrow_mut().push(resp);
            match run_call(&abt, &programs[t][k[t]], &logs[t], &known) {
                Outcome::Pending(op) => pend[t] = Some(op),
                Outcome::Done(v, tr) => {
                    // with a script, the call's return is a step of its own ("s_ret" / "u_ret")
                    if !drifted && script_pos < script.len() && (script[script_pos].1 == "s_ret" || script[script_pos].1 == "u_ret") && script[script_pos].0 == t + 1 {
                        script_pos += 1;
                    }
                    finish(&mut out, run.run, t, v, tr, &mut sim, nops[t]);
                    active[t] = false;
                    k[t] += 1;
                }
            }
            if (0..nthreads).all(|t| !active[t] && k[t] >= programs[t].len()) {
                break;
            }
        }
        out.emit(&json!({"run":run.run,"ev":"end","drifted":drifted as u8,"seqlen":sim.mem[1].len()}));
    }
    out.finish();
}

fn finish(out: &mut Trace, run: i64, t: usize, v: Value, trailing: Vec<Op>, sim: &mut Sim, nops: usize) {
    let mut released = false;
    for op in trailing {
        if let Op::Unlock(_, true) = op {
            if sim.holder == Some(t) {
                sim.holder = None;
                sim.poisoned = true;
                sim.lock_view = sim.tv[t].clone();
                released = true;
            }
        }
    }
    out.emit(&json!({"run":run,"ev":"ret","t":t+1,"r":v,"nops":nops,"poisoned":released as u8,"seqlen":sim.mem[1].len()}));
}
