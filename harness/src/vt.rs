//! Driver for C14: VouchedTime::new / check / get_local_time / now on (local, base, voucher) triples.
//!
//! Run cfg: {"src":"new"|"now", "local_ms": i64 (floor of the local time in ms since the epoch; "new" only),
//!           "sub_ns": 0..999999, "base": u64 ("new") | "delta": i64 ("now": base = now_ms + delta),
//!           "vk":"ok"|"value"|"params"|"bits"}
//! 64-bit quantities are logged as three 30-bit limbs (TLC integers are 32-bit).
use crate::util::*;
use serde_json::json;
use vouched_time::VouchedTime;

const VOUCH: raffle::VouchingParameters =
    raffle::VouchingParameters::parse_or_die("VOUCH-773ec2a0e62c20cd-f9e079b78e895091-fc1da7b1b77c57cb-594b9cce3091464a");

fn limbs(x: u128) -> [u64; 3] {
    let lb = 1u128 << 30;
    [(x % lb) as u64, ((x / lb) % lb) as u64, (x / (lb * lb)) as u64]
}

fn voucher(kind: &str, base: u64) -> raffle::Voucher {
    match kind {
        "ok" => VOUCH.vouch(base),
        "value" => VOUCH.vouch(base.wrapping_add(1)),
        "params" => {
            let mut s = 0x1234_5678_9abc_def1u64;
            let other = raffle::VouchingParameters::generate(|| -> Result<u64, ()> {
                s ^= s << 13;
                s ^= s >> 7;
                s ^= s << 17;
                Ok(s)
            })
            .expect("generate");
            other.vouch(base)
        }
        _ => {
            let ok = VOUCH.vouch(base);
            let bits: u64 = unsafe { std::mem::transmute(ok) };
            unsafe { std::mem::transmute::<u64, raffle::Voucher>(bits ^ 1) }
        }
    }
}

pub fn drive_vt(ops: &str, trace: &str) {
    let runs = read_runs(ops);
    let mut out = Trace::create(trace);
    for run in &runs {
        out.emit(&json!({"run":run.run,"ev":"reset"}));
        let src = gets(&run.cfg, "src").to_string();
        let vk = gets(&run.cfg, "vk").to_string();
        let r = guarded(|| -> (i128, u64, bool, String, bool) {
            // returns (local ns, base, ok, err, reported local time == given local time)
            if src == "new" {
                let local_ms = run.cfg["local_ms"].as_i64().expect("local_ms") as i128;
                let sub = geti(&run.cfg, "sub_ns") as i128;
                let ns = local_ms * 1_000_000 + sub;
                let base = run.cfg["base"].as_u64().expect("base");
                let odt = time::OffsetDateTime::from_unix_timestamp_nanos(ns).expect("representable local time");
                let local = time::PrimitiveDateTime::new(odt.date(), odt.time());
                let v = voucher(&vk, base);
                let chk = VouchedTime::check(local, base, v).is_ok();
                match VouchedTime::new(local, base, v) {
                    Ok(vt) => {
                        vt.check_or_die();
                        (ns, base, true, if chk { String::new() } else { "check() disagrees with new()".into() }, vt.get_local_time() == local)
                    }
                    Err(e) => (ns, base, false, if !chk { format!("{e}") } else { "check() disagrees with new()".into() }, true),
                }
            } else {
                let delta = geti(&run.cfg, "delta");
                let mut seen: i128 = 0;
                let mut used_base = 0u64;
                let res = VouchedTime::now(|now| {
                    seen = now.unix_timestamp_nanos();
                    let now_ms = (seen / 1_000_000) as i64;
                    used_base = (now_ms + delta) as u64;
                    Ok((used_base, voucher(&vk, used_base)))
                });
                match res {
                    Ok(vt) => {
                        let got = vt.get_local_time().assume_utc().unix_timestamp_nanos();
                        (seen, used_base, true, String::new(), got == seen)
                    }
                    Err(e) => (seen, used_base, false, format!("{e}"), true),
                }
            }
        });
        match r {
            Ok((ns, base, ok, err, same)) => {
                let neg = ns < 0;
                let ms = if neg { 0 } else { (ns / 1_000_000) as u128 };
                out.emit(&json!({"run":run.run,"ev":"vt","src":src,"vk":vk,"neg":neg as u8,"lms":limbs(ms),"base":limbs(base as u128),
                                 "ok":ok as u8,"err":err.replace('"', "'"),"same":same as u8,"panic":""}));
            }
            Err(p) => {
                out.emit(&json!({"run":run.run,"ev":"vt","src":src,"vk":vk,"neg":0,"lms":[0,0,0],"base":[0,0,0],"ok":0,"err":"","same":1,"panic":p}));
            }
        }
    }
    out.finish();
}
