//! Long-stream driver for the bounded-footprint half of C10 and the unbounded-stream lag bound of C09:
//! streams tens to hundreds of MiB through an Encoder, an Encoder->Decoder pipeline or a StreamReader
//! while the consumer keeps draining what is consumable, and samples the process-wide live arena bytes.
//!
//! Run cfg: {"kind":"enc"|"pipeline"|"sreader", "shape":"ones"|"nostuff"|"dense"|"random",
//!           "total": bytes, "sizes":[call sizes, cyclic], "m":"copy"|"borrow"|"read"|"anchored",
//!           "drain":"bytes"|"slices"|"read", "seed": n, "big": bytes (sreader: size of the skipped record)}
use crate::util::*;
use hcobs::{Chunk, Decoder, Encoder, StreamChunker, StreamReader};
use owning_iovec::{ByteArena, ConsumingIovec};
use serde_json::json;
use std::num::NonZeroUsize;

const POOL: usize = 8 << 20;

fn make_pool(shape: &str, seed: u64) -> &'static [u8] {
    let mut x = seed.wrapping_mul(0x9E3779B97F4A7C15) | 1;
    let mut next = move || {
        x ^= x << 13;
        x ^= x >> 7;
        x ^= x << 17;
        x
    };
    let v: Vec<u8> = (0..POOL)
        .map(|i| match shape {
            "ones" => 1u8,
            "nostuff" => (i % 251) as u8,
            "dense" => [0xFE, 0xFD, 0xFE, 0xFD, 0, 0xFF][(next() % 6) as usize],
            _ => (next() & 0xFF) as u8,
        })
        .collect();
    Box::leak(v.into_boxed_slice())
}

thread_local! {
    static ACCOUNT: std::cell::Cell<bool> = const { std::cell::Cell::new(false) };
    static DRAINED: std::cell::Cell<(u64, u64)> = const { std::cell::Cell::new((0, 0)) }; // (bytes, FE FD occurrences incl. across drains)
    static LAST: std::cell::Cell<u8> = const { std::cell::Cell::new(0) };
}

fn account(s: &[u8]) {
    let (mut n, mut st) = DRAINED.with(|c| c.get());
    let mut last = LAST.with(|c| c.get());
    for b in s {
        if last == 0xFE && *b == 0xFD {
            st += 1;
        }
        last = *b;
    }
    n += s.len() as u64;
    DRAINED.with(|c| c.set((n, st)));
    LAST.with(|c| c.set(last));
}

/// Drains everything consumable; returns the drained bytes (only when `keep`).
fn drain_all(c: &mut ConsumingIovec<'_>, how: &str, keep: bool) -> Vec<u8> {
    let mut out = Vec::new();
    loop {
        let sp = c.stable_prefix();
        if sp.is_empty() {
            // "consume whatever is there" when nothing is: a legitimate call
            if how == "slices" {
                let k = c.consume(0);
                assert_eq!(k, 0, "harness: consume(0)");
            }
            break;
        }
        let n: usize = sp.iter().map(|s| s.len()).sum();
        for s in sp {
            if ACCOUNT.with(|c| c.get()) {
                account(s);
            }
            if keep {
                out.extend_from_slice(s);
            }
        }
        let nsl = sp.len();
        match how {
            "slices" => {
                let k = c.consume(nsl);
                assert_eq!(k, nsl, "harness: consume");
            }
            "read" => {
                use std::io::Read;
                let mut buf = vec![0u8; n.min(1 << 16)];
                let mut left = n;
                while left > 0 {
                    let want = buf.len().min(left);
                    let k = c.read(&mut buf[..want]).unwrap();
                    assert!(k > 0, "harness: read made no progress");
                    left -= k;
                }
            }
            _ => {
                let k = c.advance_slices(n);
                assert_eq!(k, n, "harness: advance_slices");
            }
        }
    }
    out
}

/// FNV-1a over a byte stream, continued from `h` (a digest the trace compares, not an oracle: both sides are logged)
fn fnv(mut h: u64, bytes: &[u8]) -> u64 {
    for b in bytes {
        h ^= *b as u64;
        h = h.wrapping_mul(0x100000001b3);
    }
    h
}
const FNV0: u64 = 0xcbf29ce484222325;

pub fn drive_footprint(ops: &str, trace: &str) {
    let runs = read_runs(ops);
    let mut out = Trace::create(trace);
    for run in &runs {
        let kind = gets(&run.cfg, "kind").to_string();
        let shape = gets(&run.cfg, "shape").to_string();
        let total = geti(&run.cfg, "total") as usize;
        let sizes: Vec<usize> = run.cfg["sizes"].as_array().unwrap().iter().map(|x| x.as_u64().unwrap() as usize).collect();
        let m = run.cfg["m"].as_str().unwrap_or("copy").to_string();
        let how = run.cfg["drain"].as_str().unwrap_or("bytes").to_string();
        let drain_every = run.cfg["drain_every"].as_u64().unwrap_or(1) as usize;
        let stride = run.cfg["stride"].as_u64().unwrap_or(1).max(1) as usize; // sample every stride-th call
        let pool = make_pool(&shape, geti(&run.cfg, "seed") as u64);
        let live0 = ByteArena::num_live_bytes();
        out.emit(&json!({"run":run.run,"ev":"reset","kind":kind,"total":total,"objects": if kind == "pipeline" {2} else {1},
                         "live":live0,"chunks":ByteArena::num_live_chunks()}));
        DRAINED.with(|c| c.set((0, 0)));
        LAST.with(|c| c.set(0));
        let res = guarded(|| {
            let mut streamed = 0usize;
            let mut i = 0usize;
            let mut off = 0usize;
            let sample = |out: &mut Trace, streamed: usize, who: &str, c: &ConsumingIovec<'_>, peak: usize| {
                if who != "sreader" && (streamed / 64) % stride != 0 && stride > 1 {
                    return;
                }
                let stable: usize = c.stable_prefix().iter().map(|s| s.len()).sum();
                out.emit(&json!({"run":run.run,"ev":"sample","who":who,"streamed":streamed,"live":ByteArena::num_live_bytes(),
                                 "peak":peak,"total":c.total_size(),"stable":stable,"pending":c.has_pending_backrefs() as u8}));
            };
            match kind.as_str() {
                "enc" | "pipeline" => {
                    let mut enc = Encoder::new();
                    let mut dec = Decoder::new();
                    let mut producer_arena = ByteArena::new();
                    // pipeline: digests and lengths of everything fed to the encoder and of everything the decoder gave back
                    let (mut in_h, mut dec_h, mut dec_n) = (FNV0, FNV0, 0usize);
                    while streamed < total {
                        let n = sizes[i % sizes.len()].min(total - streamed).min(POOL / 2);
                        i += 1;
                        if off + n > POOL {
                            off = 0;
                        }
                        let piece = &pool[off..off + n];
                        off += n;
                        if kind == "pipeline" {
                            in_h = fnv(in_h, piece);
                        }
                        match m.as_str() {
                            "borrow" => enc.encode(piece),
                            "read" => {
                                let k = enc.encode_read(piece, n, NonZeroUsize::MAX).unwrap();
                                assert_eq!(k, n);
                            }
                            "anchored" => {
                                let a = enc.read_n(piece, n, NonZeroUsize::MAX).unwrap();
                                enc.encode_anchored(a);
                            }
                            "foreign" => {
                                // the producer reads with its own arena: only the slice's anchor keeps the chunk alive
                                let a = producer_arena.read_n(piece, n, NonZeroUsize::MAX).unwrap();
                                enc.encode_anchored(a);
                            }
                            _ => enc.encode_copy(piece),
                        }
                        streamed += n;
                        sample(&mut out, streamed, "enc", &enc.consumer(), 0);
                        // some schedules drain only every few calls (several slices per consume call)
                        if drain_every > 1 && i % drain_every != 0 {
                            continue;
                        }
                        ACCOUNT.with(|c| c.set(true));
                        let bytes = drain_all(&mut enc.consumer(), &how, kind == "pipeline");
                        ACCOUNT.with(|c| c.set(false));
                        if kind == "pipeline" && !bytes.is_empty() {
                            let mut src = &bytes[..];
                            while !src.is_empty() {
                                let want = sizes[(i + src.len()) % sizes.len()].min(src.len()).max(1);
                                match m.as_str() {
                                    "read" | "anchored" => {
                                        let k = dec.decode_read(&mut src, want, NonZeroUsize::MAX).expect("valid stream");
                                        assert!(k > 0);
                                    }
                                    _ => {
                                        dec.decode_copy(&src[..want]).expect("valid stream");
                                        src = &src[want..];
                                    }
                                }
                                sample(&mut out, streamed, "dec", &dec.consumer(), 0);
                                let got = drain_all(&mut dec.consumer(), &how, true);
                                dec_h = fnv(dec_h, &got);
                                dec_n += got.len();
                            }
                        }
                        sample(&mut out, streamed, "drained", &enc.consumer(), 0);
                    }
                    // finish the encoder: the complete output length is a measurement the length bound of C02 is checked on
                    let rest = enc.finish();
                    ACCOUNT.with(|c| c.set(true));
                    for sl in rest.stable_prefix() {
                        account(sl);
                    }
                    ACCOUNT.with(|c| c.set(false));
                    let (n, st) = DRAINED.with(|c| c.get());
                    out.emit(&json!({"run":run.run,"ev":"lengths","in_hi":(streamed >> 20),"in_lo":(streamed & 0xFFFFF),
                                     "out_hi":(n >> 20),"out_lo":(n & 0xFFFFF),"stuff":st,"pending":rest.has_pending_backrefs() as u8}));
                    if kind == "pipeline" {
                        // the rest of the encoding goes through the decoder too; then the round trip is complete
                        let tail = rest.flatten().unwrap_or_else(|v| v);
                        let ok = dec.decode_copy(&tail).is_ok();
                        let fin = if ok { dec.finish().ok() } else { None };
                        let done = fin.is_some();
                        if let Some(iov) = fin {
                            for sl in iov.stable_prefix() {
                                dec_h = fnv(dec_h, sl);
                                dec_n += sl.len();
                            }
                        }
                        out.emit(&json!({"run":run.run,"ev":"roundtrip","ok":done as u8,"same_len":(dec_n == streamed) as u8,
                                         "same_digest":(dec_h == in_h) as u8,"drained_before_finish":(dec_n > 0) as u8}));
                    } else {
                        drop(dec);
                    }
                    drop(rest);
                    drop(producer_arena);
                }
                "mt" => {
                    // the live counters are process-wide: short histories on several threads at once
                    let threads = 8usize;
                    let iters = total;
                    let hs: Vec<_> = (0..threads)
                        .map(|t| {
                            std::thread::spawn(move || {
                                for it in 0..iters {
                                    let mut iov = owning_iovec::OwningIovec::new();
                                    iov.push_copy(&[t as u8; 100]);
                                    let a = iov.arena().read_n(&[7u8; 300][..], 300, NonZeroUsize::MAX).unwrap();
                                    let c = iov.clone();
                                    if it % 3 == 0 {
                                        let ar = iov.consumer().take_arena();
                                        drop(ar);
                                    }
                                    iov.push_copy(&[1u8; 5000]);
                                    let _ = iov.consumer().consume(1);
                                    match it % 3 {
                                        0 => {
                                            drop(iov);
                                            drop(a);
                                            drop(c);
                                        }
                                        1 => {
                                            drop(c);
                                            drop(a);
                                            drop(iov);
                                        }
                                        _ => {
                                            drop(a);
                                            drop(iov);
                                            drop(c);
                                        }
                                    }
                                }
                            })
                        })
                        .collect();
                    for h in hs {
                        h.join().expect("worker");
                    }
                    let _ = (streamed, i, off);
                }
                "chunkdec" => {
                    // a hand-rolled record reader: StreamChunker::pump -> Decoder::decode_anchored, finish at every
                    // sentinel, look at the record, drain it with consume(number of stable slices), and keep the iovec
                    // (and its arena) for the next record through Decoder::new_from_iovec
                    let big = geti(&run.cfg, "big") as usize;
                    let mut log: Vec<u8> = Vec::with_capacity(big + 16);
                    let unit: &[u8] = match run.cfg["log"].as_str().unwrap_or("empties") {
                        "empties" => &[0, 0xFE, 0xFD],
                        "junk" => &[0xFF, 7, 7, 7, 0xFE, 0xFD],
                        _ => &[3, b'a', b'b', b'c', 0xFE, 0xFD, 0, 0xFE, 0xFD],
                    };
                    while log.len() < big {
                        log.extend_from_slice(unit);
                    }
                    let mut rd = &log[..];
                    let mut arena = ByteArena::new();
                    let mut ch = StreamChunker::default();
                    let mut dec = Decoder::new();
                    let mut bad = false;
                    let (mut nrec, mut peak) = (0usize, 0usize);
                    loop {
                        match ch.pump(&mut arena, &mut rd, sizes[0].max(3)).expect("pump") {
                            Chunk::Eof => break,
                            Chunk::Data((_, slice)) => {
                                if !bad && dec.decode_anchored(slice).is_err() {
                                    bad = true;
                                }
                            }
                            Chunk::Sentinel(_) => {
                                let mut iov = if bad { dec.take_iovec() } else { dec.finish().unwrap_or_default() };
                                nrec += 1;
                                bad = false;
                                peak = peak.max(ByteArena::num_live_bytes());
                                let mut c = iov.consumer();
                                let n = c.stable_prefix().len();
                                let k = c.consume(n);
                                assert_eq!(k, n, "harness: consume");
                                dec = Decoder::new_from_iovec(iov);
                            }
                        }
                    }
                    out.emit(&json!({"run":run.run,"ev":"sample","who":"sreader","streamed":log.len(),"live":ByteArena::num_live_bytes(),
                                     "peak":peak,"total":0,"stable":0,"pending":0,"records":nrec}));
                    drop(dec);
                    let _ = (streamed, i, off);
                }
                "sreader" => {
                    // a log: small record, sentinel, one oversized record (skipped by the judge), sentinel, small record
                    let big = geti(&run.cfg, "big") as usize;
                    let mut log: Vec<u8> = vec![1, b'a', 0xFE, 0xFD];
                    match run.cfg["log"].as_str().unwrap_or("bigskip") {
                        // `big` bytes of empty records, which the caller only looks at
                        "empties" => {
                            while log.len() < big {
                                log.extend_from_slice(&[0, 0xFE, 0xFD]);
                            }
                            log.truncate(log.len() - 2);
                        }
                        // `big` bytes of records that are invalid from their first byte
                        "junk" => {
                            while log.len() < big {
                                log.extend_from_slice(&[0xFF, 7, 7, 7, 0xFE, 0xFD]);
                            }
                            log.truncate(log.len() - 2);
                        }
                        _ => {
                            let mut e = Encoder::new();
                            let mut left = big;
                            while left > 0 {
                                let n = left.min(POOL / 2);
                                e.encode_copy(&pool[..n]);
                                left -= n;
                            }
                            log.extend_from_slice(&e.finish().flatten().unwrap());
                        }
                    }
                    log.extend_from_slice(&[0xFE, 0xFD, 1, b'z']);
                    let mut peak = 0usize;
                    let std_judge = StreamReader::chunk_judge(1024, None);
                    let mut sr = StreamReader::new();
                    let mut rd = &log[..];
                    let mut nrec = 0;
                    loop {
                        let r = sr
                            .next_record_bytes(
                                &mut rd,
                                |range, iov| {
                                    peak = peak.max(ByteArena::num_live_bytes());
                                    std_judge(range, iov)
                                },
                                None,
                            )
                            .expect("reader");
                        match r {
                            Some(_) => nrec += 1,
                            None => break,
                        }
                    }
                    out.emit(&json!({"run":run.run,"ev":"sample","who":"sreader","streamed":log.len(),"live":ByteArena::num_live_bytes(),
                                     "peak":peak,"total":0,"stable":0,"pending":0,"records":nrec}));
                    let _ = (streamed, i, off);
                }
                k => panic!("harness: footprint kind {k}"),
            }
        });
        let pan = match res {
            Ok(()) => String::new(),
            Err(p) => p,
        };
        out.emit(&json!({"run":run.run,"ev":"end","panic":pan,"live":ByteArena::num_live_bytes(),"chunks":ByteArena::num_live_chunks()}));
    }
    out.finish();
}
