//! Conformance harness for the woodpile TLA+ specifications.
//!
//! The harness contains no oracle: it executes operation sequences on the real code and
//! records what came back as NDJSON; every comparison that decides a property is made by
//! TLC against a TLA+ definition (see /verif/specs).
mod atomic;
mod codec;
mod deque;
mod footprint;
mod nfs;
mod pipe;
mod readn;
mod stream;
mod tlv;
mod vt;
mod util;

fn main() {
    let args: Vec<String> = std::env::args().collect();
    if args.len() < 4 {
        eprintln!("usage: wp_harness <engine> <ops.ndjson> <trace.ndjson>");
        std::process::exit(2);
    }
    util::silence_panics();
    // per-run time budget (runs take milliseconds, except the long-stream and concurrent ones)
    util::start_watchdog(match args[1].as_str() {
        "footprint" => 1500,
        "nfs" | "atomic" => 300,
        _ => 120,
    });
    match args[1].as_str() {
        "deque" => deque::drive_deque(&args[2], &args[3]),
        "codec" => codec::drive_codec(&args[2], &args[3]),
        "nfs" => nfs::drive_nfs(&args[2], &args[3]),
        "atomic" => atomic::drive_atomic(&args[2], &args[3]),
        "vt" => vt::drive_vt(&args[2], &args[3]),
        "tlv" => tlv::drive_tlv(&args[2], &args[3]),
        "readn" => readn::drive_readn(&args[2], &args[3]),
        "footprint" => footprint::drive_footprint(&args[2], &args[3]),
        "pipe" => pipe::drive_pipe(&args[2], &args[3]),
        "stream" => stream::drive_stream(&args[2], &args[3]),
        "sorted" => deque::drive_sorted(&args[2], &args[3]),
        e => {
            eprintln!("unknown engine {e}");
            std::process::exit(2);
        }
    }
}
