//! Driver for C19 (vouched_time::nfs_voucher).  The module state is process-global: ONE run per process.
//! Files live on two real devices: a directory under the given work dir and one under /dev/shm (tmpfs).
//!
//! Ops: create(f,d) link(f,target) repoint(f,target) touch(f) oldmtime(f) sleep(ms)
//!      add(f) observe(f) maybe_observe(f) scan get(off_ms) get_unlocked
//! Times are logged relative to the start of the run (TLC integers are 32-bit): 0 = the epoch, 1 = "long ago".
use crate::util::*;
use serde_json::{json, Map, Value};
use std::collections::BTreeMap;
use std::os::unix::fs::MetadataExt;
use std::path::PathBuf;
use vouched_time::nfs_voucher as nv;

fn ms_of(secs: i64, nsec: i64) -> u64 {
    (secs as u64).saturating_mul(1000).saturating_add((nsec as u64) / 1_000_000)
}

pub fn drive_nfs(ops: &str, trace: &str) {
    let runs = read_runs(ops);
    let mut out = Trace::create(trace);
    let run = &runs[0];
    let pid = std::process::id();
    let dir_a = PathBuf::from(gets(&run.cfg, "dir_a")).join(format!("nfs-{}-{}", pid, run.run));
    let dir_b = PathBuf::from("/dev/shm").join(format!("wpnfs-{}-{}", pid, run.run));
    std::fs::create_dir_all(&dir_a).expect("dir a");
    let b_ok = std::fs::create_dir_all(&dir_b).is_ok();
    let dev_a = std::fs::metadata(&dir_a).unwrap().dev();
    let dev_b = if b_ok { std::fs::metadata(&dir_b).unwrap().dev() } else { dev_a };
    let two = b_ok && dev_a != dev_b;
    let t0 = (time::OffsetDateTime::now_utc().unix_timestamp_nanos() / 1_000_000) as u64;
    let rel = |x: u64| -> u64 {
        if x == 0 {
            0
        } else if x + 1_000_000 <= t0 {
            1
        } else {
            x + 1_000_000 - t0
        }
    };
    let devname = |d: u64| -> &'static str {
        if d == dev_a {
            "a"
        } else if d == dev_b {
            "b"
        } else {
            "?"
        }
    };
    out.emit(&json!({"run":run.run,"ev":"reset","two_devices":two as u8}));
    let mut paths: BTreeMap<i64, PathBuf> = BTreeMap::new();
    let check_pair = |b: u64, v: raffle::Voucher| -> bool {
        match time::OffsetDateTime::from_unix_timestamp_nanos(b as i128 * 1_000_000) {
            Ok(odt) => vouched_time::VouchedTime::check(time::PrimitiveDateTime::new(odt.date(), odt.time()), b, v).is_ok(),
            Err(_) => false,
        }
    };
    for op in &run.ops {
        let ev = gets(op, "ev").to_string();
        let mut e: Map<String, Value> = op.as_object().unwrap().clone();
        e.insert("run".into(), json!(run.run));
        let f = op["f"].as_i64().unwrap_or(0);
        // should_refresh: (now relative to the run start, leeway, answer)
        let sr = std::cell::Cell::new((0u64, 0i64, 0u8));
        // "mt": per-thread observations (thread, reported by the refresh, read back afterwards, vouchers ok)
        let mt_obs: std::cell::RefCell<Vec<(usize, u64, u64, bool)>> = Default::default();
        let r = guarded(|| -> Result<Option<(u64, bool)>, String> {
            let io = |e: std::io::Error| format!("{:?}", e.kind());
            match ev.as_str() {
                "create" => {
                    let d = if gets(op, "d") == "b" && two { &dir_b } else { &dir_a };
                    let p = d.join(format!("file{f}"));
                    std::fs::write(&p, b"x").map_err(io)?;
                    paths.insert(f, p);
                    Ok(None)
                }
                "link" | "repoint" => {
                    let target = paths.get(&geti(op, "target")).cloned().ok_or("no target")?;
                    let p = dir_a.join(format!("link{f}"));
                    let _ = std::fs::remove_file(&p);
                    std::os::unix::fs::symlink(&target, &p).map_err(io)?;
                    paths.insert(f, p);
                    Ok(None)
                }
                "touch" => {
                    let p = paths.get(&f).ok_or("no file")?;
                    let file = std::fs::File::options().write(true).open(p).map_err(io)?;
                    file.set_times(std::fs::FileTimes::new().set_accessed(std::time::SystemTime::now())).map_err(io)?;
                    Ok(None)
                }
                "oldmtime" => {
                    let p = paths.get(&f).ok_or("no file")?;
                    let file = std::fs::File::options().write(true).open(p).map_err(io)?;
                    file.set_modified(std::time::UNIX_EPOCH + std::time::Duration::from_secs(1_000_000_000)).map_err(io)?;
                    Ok(None)
                }
                "futuremtime" => {
                    let p = paths.get(&f).ok_or("no file")?;
                    let file = std::fs::File::options().write(true).open(p).map_err(io)?;
                    file.set_modified(std::time::SystemTime::now() + std::time::Duration::from_secs(60)).map_err(io)?;
                    Ok(None)
                }
                "sleep" => {
                    std::thread::sleep(std::time::Duration::from_millis(geti(op, "ms") as u64));
                    Ok(None)
                }
                "add" => {
                    let p = paths.get(&f).ok_or("no file")?.clone();
                    nv::add_trusted_path(p).map_err(io)?;
                    Ok(None)
                }
                "observe" => {
                    let p = paths.get(&f).ok_or("no file")?;
                    let file = std::fs::File::open(p).map_err(io)?;
                    let (_, got) = nv::observe_file_time(&file).map_err(io)?;
                    Ok(got.map(|(b, v)| (b, check_pair(b, v))))
                }
                "maybe_observe" => {
                    let p = paths.get(&f).ok_or("no file")?;
                    let file = std::fs::File::open(p).map_err(io)?;
                    nv::maybe_observe_file_time(&file);
                    Ok(None)
                }
                "scan" => {
                    nv::scan_base_time().map_err(io)?;
                    Ok(None)
                }
                "get" => {
                    let now = time::OffsetDateTime::now_utc() + time::Duration::milliseconds(geti(op, "off"));
                    let (b, v) = nv::get_base_time(now).map_err(io)?;
                    Ok(Some((b, check_pair(b, v))))
                }
                "mt" => {
                    // concurrent callers: every thread forces a refresh (now + 1 h) and reads the base time back
                    let threads = geti(op, "threads") as usize;
                    let iters = geti(op, "iters") as usize;
                    let deadline = std::time::Instant::now() + std::time::Duration::from_millis(geti(op, "ms") as u64);
                    let handles: Vec<_> = (0..threads)
                        .map(|t| {
                            std::thread::spawn(move || {
                                let ok = |b: u64, v: raffle::Voucher| match time::OffsetDateTime::from_unix_timestamp_nanos(b as i128 * 1_000_000) {
                                    Ok(odt) => vouched_time::VouchedTime::check(time::PrimitiveDateTime::new(odt.date(), odt.time()), b, v).is_ok(),
                                    Err(_) => false,
                                };
                                let mut obs = Vec::with_capacity(iters);
                                let mut prev = (0u64, 0u64);
                                for _ in 0..iters {
                                    if std::time::Instant::now() >= deadline {
                                        break;
                                    }
                                    let now = time::OffsetDateTime::now_utc();
                                    let (rep, repv) = match nv::get_base_time(now + time::Duration::hours(1)) {
                                        Ok((b, v)) => (b, ok(b, v)),
                                        Err(_) => (0, true),
                                    };
                                    let (seen, v) = nv::get_base_time_unlocked(now).expect("unlocked");
                                    // (only what differs from this thread's previous observation is logged)
                                    if (rep, seen) != prev {
                                        obs.push((t, rep, seen, repv && ok(seen, v)));
                                        prev = (rep, seen);
                                    }
                                }
                                obs
                            })
                        })
                        .collect();
                    for h in handles {
                        match h.join() {
                            Ok(o) => mt_obs.borrow_mut().extend(o),
                            Err(p) => std::panic::resume_unwind(p),
                        }
                    }
                    Ok(None)
                }
                "should_refresh" => {
                    // pure policy: is the base time older than the leeway, and is there anything to refresh from?
                    let now = time::OffsetDateTime::now_utc() + time::Duration::milliseconds(geti(op, "off"));
                    let lee = geti(op, "leeway");
                    let ans = nv::should_refresh_base_time(if lee < 0 { None } else { Some(lee as u64) }, Some(now));
                    let now_ms = (now.unix_timestamp_nanos() / 1_000_000) as u64;
                    sr.set((rel(now_ms), lee, ans as u8));
                    Ok(None)
                }
                "get_unlocked" => {
                    let now = time::OffsetDateTime::now_utc() + time::Duration::milliseconds(op["off"].as_i64().unwrap_or(0));
                    let (b, v) = nv::get_base_time_unlocked(now).map_err(io)?;
                    Ok(Some((b, check_pair(b, v))))
                }
                x => panic!("harness: nfs op {x}"),
            }
        });
        let (ret, vok, err, pan) = match r {
            Ok(Ok(Some((b, ok)))) => (rel(b) as i64, ok as u8, String::new(), String::new()),
            Ok(Ok(None)) => (-1, 1, String::new(), String::new()),
            Ok(Err(s)) => (-1, 1, s, String::new()),
            Err(p) => (-1, 1, String::new(), p),
        };
        e.insert("ret".into(), json!(ret));
        e.insert("vok".into(), json!(vok));
        e.insert("err".into(), json!(err));
        e.insert("panic".into(), json!(pan));
        // observation: every file as the harness stats it now, and the current base time
        let files: Vec<Value> = paths
            .iter()
            .map(|(id, p)| match std::fs::metadata(p) {
                Ok(m) => json!({"f": id, "dev": devname(m.dev()), "ctime": rel(ms_of(m.ctime(), m.ctime_nsec())),
                                "mtime": rel(ms_of(m.mtime(), m.mtime_nsec()))}),
                Err(_) => json!({"f": id, "dev": "?", "ctime": 0, "mtime": 0}),
            })
            .collect();
        for (t, rep, seen, vok) in mt_obs.borrow().iter() {
            out.emit(&json!({"run":run.run,"ev":"mt_obs","t":t,"rep":rel(*rep),"seen":rel(*seen),"vok":*vok as u8}));
        }
        let (sr_now, sr_lee, sr_ans) = sr.get();
        e.insert("sr_now".into(), json!(sr_now));
        e.insert("sr_leeway".into(), json!(sr_lee));
        e.insert("sr_ans".into(), json!(sr_ans));
        e.insert("files".into(), json!(files));
        let (b, v) = nv::get_base_time_unlocked(time::OffsetDateTime::now_utc()).expect("unlocked");
        e.insert("base".into(), json!(rel(b)));
        e.insert("base_vok".into(), json!(check_pair(b, v) as u8));
        out.emit(&Value::Object(e));
    }
    let _ = std::fs::remove_dir_all(&dir_a);
    let _ = std::fs::remove_dir_all(&dir_b);
    out.emit(&json!({"run":run.run,"ev":"end"}));
    out.finish();
}
