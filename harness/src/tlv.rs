//! Driver for rough_tlv (C11, C12).
//!   {"kind":"view","bytes":[..],"probe":[tags]}       MessageView::new on untrusted bytes + every accessor
//!   {"kind":"enc","ctor":"new"|"slice"|"sorted","sink":"iovec"|"hcobs","nested":bool,"pairs":[[tag,["b"|"o",bytes]] | [tag,["m",pairs]]]}
//!   {"kind":"limits","ctor":..,"tags":[..],"lens":[[hi,lo],..]}   size limits with values that only report a length
use crate::util::*;
use owning_iovec::{OwningIovec, ZeroCopySink};
use rough_tlv::{EncodingError, MessageView, MessageWrapper, Tag, ToRoughTLV};
use serde_json::{json, Value};
use std::borrow::Cow;

fn bytes_of(v: &Value) -> Vec<u8> {
    v.as_array().map(|a| a.iter().map(|x| x.as_u64().unwrap() as u8).collect()).unwrap_or_default()
}

fn optv(v: Option<&[u8]>) -> Value {
    match v {
        Some(b) => json!(b),
        None => json!([-1]),
    }
}

fn view_report(bytes: &[u8], probe: &[u32]) -> Value {
    let r = guarded(|| match MessageView::new(Cow::Borrowed(bytes)) {
        Err(e) => json!({"ok": 0, "errk": format!("{:?}", e).split('(').next().unwrap_or("").to_string()}),
        Ok(view) => {
            let n = view.len();
            let tags: Vec<Value> = view.tags().iter().map(|t| json!(t.bytes)).collect();
            let iter: Vec<Value> = view.iter().map(|(t, v)| json!([t.bytes, v])).collect();
            let mut idxs: Vec<usize> = (0..n + 3).collect();
            idxs.push(usize::MAX);
            let gets: Vec<Value> = idxs
                .iter()
                .map(|i| match view.get(*i) {
                    Some((t, v)) => json!([t.bytes, v]),
                    None => json!([-1]),
                })
                .collect();
            let getvs: Vec<Value> = idxs.iter().map(|i| optv(view.get_value(*i))).collect();
            let mut ptags: Vec<u32> = probe.to_vec();
            ptags.extend(view.tags().iter().map(|t| t.value()));
            let finds: Vec<Value> = ptags
                .iter()
                .map(|t| {
                    let idx = view.find_tag(*t).map(|i| i as i64).unwrap_or(-1);
                    json!({"tag": Tag::new_from_u32(*t).bytes, "v": optv(view.find(*t)), "idx": idx})
                })
                .collect();
            let mut sink = OwningIovec::new();
            view.to_rough_tlv(&mut sink);
            let re = sink.flatten().unwrap_or_else(|v| v);
            json!({"ok": 1, "errk": "", "n": n, "empty": view.is_empty() as u8, "tags": tags, "iter": iter,
                   "gets": gets, "getvs": getvs, "finds": finds,
                   "match": view.tags_match_exactly(view.tags().iter().copied()) as u8,
                   "reenc_ok": (re == bytes && view.rough_tlv_len() == bytes.len() && &view.inner()[..] == bytes) as u8})
        }
    });
    match r {
        Ok(mut v) => {
            v["panic"] = json!("");
            v
        }
        Err(p) => json!({"ok": 0, "errk": "", "panic": p}),
    }
}

fn errk(e: &EncodingError) -> String {
    format!("{:?}", e).split('(').next().unwrap_or("").to_string()
}

type CowV = Cow<'static, [u8]>;

fn cow_pairs(v: &Value) -> Vec<(Tag, CowV)> {
    v.as_array()
        .unwrap()
        .iter()
        .map(|p| {
            let tag = Tag::new_from_u32(p[0].as_u64().unwrap() as u32);
            let b = bytes_of(&p[1][1]);
            let val: CowV = if p[1][0] == "o" { Cow::Owned(b) } else { Cow::Borrowed(Box::leak(b.into_boxed_slice())) };
            (tag, val)
        })
        .collect()
}

/// Emits `msg` into the chosen sink and returns the bytes that come out of it.
fn emit_to<'a, V: ToRoughTLV<'a>>(msg: &V, sink: &str) -> Vec<u8> {
    match sink {
        "hcobs" => {
            let mut enc = hcobs::Encoder::new();
            msg.to_rough_tlv(&mut enc);
            let encoded = enc.finish().flatten().expect("no backref after finish");
            let mut dec = hcobs::Decoder::new();
            dec.decode_copy(&encoded).expect("valid hcobs");
            dec.finish().expect("complete").flatten().expect("no backref")
        }
        "dyn" => {
            let mut iov = OwningIovec::new();
            {
                let s: &mut dyn ZeroCopySink = &mut iov;
                msg.to_rough_tlv(s);
            }
            iov.flatten().expect("no backref")
        }
        _ => {
            let mut iov = OwningIovec::new();
            msg.to_rough_tlv(&mut iov);
            iov.flatten().expect("no backref")
        }
    }
}

fn build<'a, 'this, V: ToRoughTLV<'a>>(
    ctor: &str,
    entries: &'this mut Vec<(Tag, V)>,
    owned: Option<Vec<(Tag, V)>>,
) -> Result<MessageWrapper<'a, 'this, V>, EncodingError> {
    match ctor {
        "new" => MessageWrapper::new(owned.expect("owned entries")),
        "slice" => MessageWrapper::new_from_slice(&mut entries[..]),
        "sorted" => MessageWrapper::new_from_sorted(&entries[..]),
        c => panic!("harness: ctor {c}"),
    }
}

struct FakeLen(usize);
impl<'a> ToRoughTLV<'a> for FakeLen {
    fn to_rough_tlv<'dst, Sink>(&self, _sink: &mut Sink)
    where
        'a: 'dst,
        Sink: ZeroCopySink<'dst> + ?Sized,
    {
        panic!("harness: FakeLen is never written");
    }
    fn rough_tlv_len(&self) -> usize {
        self.0
    }
}

pub fn drive_tlv(ops: &str, trace: &str) {
    let runs = read_runs(ops);
    let mut out = Trace::create(trace);
    for run in &runs {
        out.emit(&json!({"run":run.run,"ev":"reset"}));
        let kind = gets(&run.cfg, "kind").to_string();
        let probe: Vec<u32> = run.cfg["probe"].as_array().map(|a| a.iter().map(|x| x.as_u64().unwrap() as u32).collect()).unwrap_or_default();
        match kind.as_str() {
            "view" => {
                let bytes = bytes_of(&run.cfg["bytes"]);
                let mut v = view_report(&bytes, &probe);
                v["run"] = json!(run.run);
                v["ev"] = json!("view");
                v["bytes"] = json!(bytes);
                out.emit(&v);
            }
            "enc" => {
                let ctor = gets(&run.cfg, "ctor").to_string();
                let sink = gets(&run.cfg, "sink").to_string();
                let nested = run.cfg["nested"].as_bool().unwrap_or(false);
                let r = guarded(|| -> Value {
                    let res: Result<(usize, Vec<u8>), EncodingError> = if !nested {
                        let mut entries = cow_pairs(&run.cfg["pairs"]);
                        let owned = if ctor == "new" { Some(cow_pairs(&run.cfg["pairs"])) } else { None };
                        build(&ctor, &mut entries, owned).map(|m| (m.rough_tlv_len(), emit_to(&m, &sink)))
                    } else {
                        // every value is itself a message (built with `new` from its own pairs)
                        let mk = || -> Vec<(Tag, MessageWrapper<'static, 'static, CowV>)> {
                            run.cfg["pairs"]
                                .as_array()
                                .unwrap()
                                .iter()
                                .map(|p| {
                                    let tag = Tag::new_from_u32(p[0].as_u64().unwrap() as u32);
                                    (tag, MessageWrapper::new(cow_pairs(&p[1][1])).expect("inner message"))
                                })
                                .collect()
                        };
                        let mut entries = mk();
                        let owned = if ctor == "new" { Some(mk()) } else { None };
                        build(&ctor, &mut entries, owned).map(|m| (m.rough_tlv_len(), emit_to(&m, &sink)))
                    };
                    match res {
                        Ok((len, bytes)) => {
                            let view = view_report(&bytes, &probe);
                            json!({"ok": 1, "errk": "", "len": len, "bytes": bytes, "view": view})
                        }
                        Err(e) => json!({"ok": 0, "errk": errk(&e), "len": 0, "bytes": [], "view": {"ok": 0, "errk": "", "panic": ""}}),
                    }
                });
                let mut v = match r {
                    Ok(mut v) => {
                        v["panic"] = json!("");
                        v
                    }
                    Err(p) => json!({"ok": 0, "errk": "", "len": 0, "bytes": [], "view": {"ok": 0, "errk": "", "panic": ""}, "panic": p}),
                };
                v["run"] = json!(run.run);
                v["ev"] = json!("enc");
                v["ctor"] = json!(ctor);
                v["sink"] = json!(sink);
                v["pairs"] = run.cfg["pairs"].clone();
                out.emit(&v);
            }
            "limits" => {
                let ctor = gets(&run.cfg, "ctor").to_string();
                let tags: Vec<u32> = run.cfg["tags"].as_array().unwrap().iter().map(|x| x.as_u64().unwrap() as u32).collect();
                let lens: Vec<usize> = run.cfg["lens"].as_array().unwrap().iter()
                    .map(|l| ((l[0].as_u64().unwrap() as usize) << 20) | (l[1].as_u64().unwrap() as usize)).collect();
                let mk = || -> Vec<(Tag, FakeLen)> { tags.iter().zip(lens.iter()).map(|(t, l)| (Tag::new_from_u32(*t), FakeLen(*l))).collect() };
                let r = guarded(|| {
                    let mut entries = mk();
                    let owned = if ctor == "new" { Some(mk()) } else { None };
                    match build(&ctor, &mut entries, owned) {
                        Ok(m) => (1, String::new(), m.rough_tlv_len()),
                        Err(e) => (0, errk(&e), 0),
                    }
                });
                let (ok, ek, len, pan) = match r {
                    Ok((a, b, c)) => (a, b, c, String::new()),
                    Err(p) => (0, String::new(), 0, p),
                };
                out.emit(&json!({"run":run.run,"ev":"limits","ctor":ctor,"tags":tags,"lens":run.cfg["lens"],"ok":ok,"errk":ek,
                                 "len":[len >> 20, len & 0xFFFFF],"panic":pan}));
            }
            k => panic!("harness: tlv kind {k}"),
        }
    }
    out.finish();
}
