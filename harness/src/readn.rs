//! Driver for C17: read_n under scripted reader behaviour, through five entry points.
//!
//! Run cfg: {"entry":"arena"|"enc_read_n"|"dec_read_n"|"encode_read"|"decode_read",
//!           "script":[k>0 deliver | 0 EOF | -1 EINTR | -2 | -3 hard errors], "count":n, "attempts":n, "prep":k}
use crate::util::*;
use hcobs::{Decoder, Encoder};
use owning_iovec::ByteArena;
use serde_json::json;
use std::io::{Error, ErrorKind, Read};
use std::num::NonZeroUsize;

struct Scripted {
    /// the error kind that script value -3 stands for in this run
    hard_b: ErrorKind,
    script: Vec<i64>,
    idx: usize,
    next_byte: u8,
    calls: Vec<[i64; 2]>,
}

impl Read for Scripted {
    fn read(&mut self, buf: &mut [u8]) -> std::io::Result<usize> {
        let r = if self.idx < self.script.len() { self.script[self.idx] } else { 0 };
        self.idx += 1;
        self.calls.push([buf.len() as i64, r]);
        match r {
            0 => Ok(0),
            -1 => Err(Error::new(ErrorKind::Interrupted, "EINTR")),
            -2 => Err(Error::new(ErrorKind::Other, "errA")),
            -3 => Err(Error::new(self.hard_b, "errB")),
            k => {
                let n = (k as usize).min(buf.len());
                for b in buf[..n].iter_mut() {
                    self.next_byte = self.next_byte.wrapping_add(1); // byte number i (1-based) is i mod 256
                    *b = self.next_byte;
                }
                Ok(n)
            }
        }
    }
}

fn code(e: &Error, hard_b: ErrorKind) -> i64 {
    match e.kind() {
        ErrorKind::Interrupted => -1,
        ErrorKind::Other => -2,
        k if k == hard_b => -3,
        _ => -9,
    }
}

fn kind_of(name: &str) -> ErrorKind {
    match name {
        "WouldBlock" => ErrorKind::WouldBlock,
        "TimedOut" => ErrorKind::TimedOut,
        "UnexpectedEof" => ErrorKind::UnexpectedEof,
        "WriteZero" => ErrorKind::WriteZero,
        "InvalidData" => ErrorKind::InvalidData,
        "ConnectionReset" => ErrorKind::ConnectionReset,
        _ => ErrorKind::BrokenPipe,
    }
}

pub fn drive_readn(ops: &str, trace: &str) {
    let runs = read_runs(ops);
    let mut out = Trace::create(trace);
    for run in &runs {
        let entry = gets(&run.cfg, "entry").to_string();
        let script: Vec<i64> = run.cfg["script"].as_array().unwrap().iter().map(|x| x.as_i64().unwrap()).collect();
        let count = geti(&run.cfg, "count") as usize;
        let attempts = NonZeroUsize::new(geti(&run.cfg, "attempts") as usize).expect("attempts > 0");
        let prep = run.cfg["prep"].as_i64().unwrap_or(-1);
        out.emit(&json!({"run":run.run,"ev":"reset"}));
        let live0 = (ByteArena::num_live_chunks(), ByteArena::num_live_bytes());
        // what the encoder entries encode before / after the read: "ab" / "yz", or "a FE" / "FD z" (a held-back FE across the read)
        let fe = run.cfg["around"].as_str() == Some("fe");
        let (ab, yz): (&[u8], &[u8]) = if fe { (&[97, 0xFE], &[0xFD, 122]) } else { (b"ab", b"yz") };
        let hard_b = kind_of(run.cfg["hard_b"].as_str().unwrap_or("BrokenPipe"));
        let mut rd = Scripted { hard_b, script: script.clone(), idx: 0, next_byte: 0, calls: vec![] };
        // result: (ok, err code, returned bytes, codec output, bytes fed to the decoder)
        let r = guarded(|| -> (i64, i64, Vec<u8>, Vec<u8>, Vec<u8>) {
            match entry.as_str() {
                "arena" => {
                    let mut arena = ByteArena::new();
                    crate::stream::prep_arena(&mut arena, prep);
                    match arena.read_n(&mut rd, count, attempts) {
                        Ok(a) => (1, 0, a.slice().to_vec(), vec![], vec![]),
                        Err(e) => (0, code(&e, hard_b), vec![], vec![], vec![]),
                    }
                }
                "enc_read_n" | "encode_read" => {
                    let mut enc = Encoder::new();
                    enc.encode_copy(ab);
                    let (ok, err, got) = if entry == "enc_read_n" {
                        match enc.read_n(&mut rd, count, attempts) {
                            Ok(a) => (1, 0, a.slice().to_vec()),
                            Err(e) => (0, code(&e, hard_b), vec![]),
                        }
                    } else {
                        match enc.encode_read(&mut rd, count, attempts) {
                            Ok(n) => (1, 0, (1..=n).map(|i| (i % 256) as u8).collect()),
                            Err(e) => (0, code(&e, hard_b), vec![]),
                        }
                    };
                    enc.encode_copy(yz);
                    let o = enc.finish().flatten().unwrap_or_else(|v| v);
                    (ok, err, got, o, vec![])
                }
                "dec_read_n" | "decode_read" => {
                    let mut dec = Decoder::new();
                    let mut fed: Vec<u8> = vec![252, b'a', b'b'];
                    dec.decode_copy(&fed).expect("valid header");
                    let (ok, err, got) = if entry == "dec_read_n" {
                        match dec.read_n(&mut rd, count, attempts) {
                            Ok(a) => (1, 0, a.slice().to_vec()),
                            Err(e) => (0, code(&e, hard_b), vec![]),
                        }
                    } else {
                        match dec.decode_read(&mut rd, count, attempts) {
                            Ok(n) => {
                                let d: Vec<u8> = (1..=n as u8).collect();
                                fed.extend_from_slice(&d);
                                (1, 0, d)
                            }
                            Err(e) => (0, code(&e, hard_b), vec![]),
                        }
                    };
                    // complete the 252-byte first chunk and terminate the message
                    let filler = vec![7u8; 252 - (fed.len() - 1)];
                    dec.decode_copy(&filler).expect("payload");
                    fed.extend_from_slice(&filler);
                    dec.decode_copy(&[0, 0]).expect("terminator");
                    fed.extend_from_slice(&[0, 0]);
                    let o = match dec.finish() {
                        Ok(iov) => iov.flatten().unwrap_or_else(|v| v),
                        Err(_) => vec![255, 255, 255],
                    };
                    (ok, err, got, o, fed)
                }
                e => panic!("harness: readn entry {e}"),
            }
        });
        let (ok, err, got, o, fed, pan) = match r {
            Ok((a, b, c, d, e)) => (a, b, c, d, e, String::new()),
            Err(p) => (0, 0, vec![], vec![], vec![], p),
        };
        let live1 = (ByteArena::num_live_chunks(), ByteArena::num_live_bytes());
        // long results are logged as (length, "is byte i equal to i mod 256 for every i") instead of byte by byte
        let got_len = got.len();
        let got_ramp = got.iter().enumerate().all(|(i, b)| *b == ((i + 1) % 256) as u8);
        let got = if got_len > 70000 { vec![] } else { got };
        out.emit(&json!({"run":run.run,"ev":"readn","entry":entry,"script":script,"count":count,"attempts":attempts.get(),
                         "prep":prep,"calls":rd.calls,"ok":ok,"err":err,"got":got,"ab":ab,"yz":yz,"got_len":got_len,"got_ramp":got_ramp as u8,
                         "out":o,"fed":fed,"panic":pan,
                         "leak": (live0 != live1) as u8}));
    }
    out.finish();
}
