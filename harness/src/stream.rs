//! Driver for StreamChunker (C08) and StreamReader (C06) with a scripted reader
//! (short reads, EINTR injection) and arena-state preparation.
//!
//! Run cfg: {"kind":"chunker"|"reader", "stream":[bytes], "block":n (-1: default),
//!           "sched":[k,...] (k>0: deliver up to k bytes, 0: Interrupted), "prep": k (-1: none; else
//!           leave exactly k bytes in the arena's current chunk), "max": n (-1: unbounded),
//!           "limit": n (-1: none)}
use crate::util::*;
use hcobs::{Chunk, StreamChunker, StreamReader};
use owning_iovec::ByteArena;
use serde_json::{json, Value};
use std::io::Read;
use std::num::NonZeroUsize;

pub struct ScriptReader<'a> {
    pub data: &'a [u8],
    pub pos: usize,
    pub sched: Vec<i64>,
    pub idx: usize,
    pub calls: u64,
}

impl Read for ScriptReader<'_> {
    fn read(&mut self, buf: &mut [u8]) -> std::io::Result<usize> {
        self.calls += 1;
        if buf.is_empty() {
            return Ok(0);
        }
        let step = if self.sched.is_empty() { i64::MAX } else { self.sched[self.idx % self.sched.len()] };
        self.idx += 1;
        if step == 0 {
            return Err(std::io::Error::new(std::io::ErrorKind::Interrupted, "EINTR"));
        }
        let n = (step as usize).min(buf.len()).min(self.data.len() - self.pos);
        buf[..n].copy_from_slice(&self.data[self.pos..self.pos + n]);
        self.pos += n;
        Ok(n)
    }
}

fn bytes_of(v: &Value) -> Vec<u8> {
    v.as_array().map(|a| a.iter().map(|x| x.as_u64().unwrap() as u8).collect()).unwrap_or_default()
}

/// Leaves exactly `k` bytes in the arena's current chunk.
pub fn prep_arena(arena: &mut ByteArena, k: i64) {
    if k == -2 {
        // an arena whose current chunk is already at the maximum size of the growth sequence, barely used
        arena.ensure_capacity(1 << 20);
        let filler = [0x55u8; 10];
        let _ = arena.read_n(&filler[..], 10, NonZeroUsize::MAX).expect("filler read");
        return;
    }
    if k == -3 {
        // a young arena: one small read, the first chunk is mostly free
        let filler = [0x55u8; 10];
        let _ = arena.read_n(&filler[..], 10, NonZeroUsize::MAX).expect("filler read");
        return;
    }
    if k < 0 {
        return;
    }
    arena.ensure_capacity(4000);
    let rem = arena.remaining();
    let k = (k as usize).min(rem);
    if rem > k {
        let filler = vec![0x55u8; rem - k];
        let _ = arena.read_n(&filler[..], rem - k, NonZeroUsize::MAX).expect("filler read");
    }
    assert_eq!(arena.remaining(), k);
}

fn run_chunker(run: &Run, out: &mut Trace) {
    let stream = bytes_of(&run.cfg["stream"]);
    let block = geti(&run.cfg, "block");
    let block = if block < 0 { hcobs::DEFAULT_BLOCK_SIZE } else { block as usize };
    let sched: Vec<i64> = run.cfg["sched"].as_array().map(|a| a.iter().map(|x| x.as_i64().unwrap()).collect()).unwrap_or_default();
    let mut arena = ByteArena::new();
    prep_arena(&mut arena, run.cfg["prep"].as_i64().unwrap_or(-1));
    let mut rd = ScriptReader { data: &stream, pos: 0, sched, idx: 0, calls: 0 };
    let mut ch = StreamChunker::default();
    let fuel = 3 * stream.len() + 8;
    let mut eof = false;
    let mut kept: Vec<owning_iovec::AnchoredSlice> = Vec::new(); // every Data chunk handed out stays reachable
    // "keep": false - the caller drops every chunk at once; "between": what it does to its arena between two pumps
    let keep = run.cfg["keep"].as_bool().unwrap_or(true);
    let between = run.cfg["between"].as_str().unwrap_or("").to_string();
    for _ in 0..fuel {
        match between.as_str() {
            "flush" => arena.flush_cache(),
            "replace" => arena = ByteArena::new(),
            "ensure" => arena.ensure_capacity(70000),
            _ => {}
        }
        let r = guarded(|| ch.pump(&mut arena, &mut rd, block));
        match r {
            Ok(Ok(Chunk::Eof)) => {
                out.emit(&json!({"run":run.run,"ev":"chunk","k":"E","off":0,"data":[],"panic":"","err":""}));
                eof = true;
                break;
            }
            Ok(Ok(Chunk::Sentinel(off))) => {
                out.emit(&json!({"run":run.run,"ev":"chunk","k":"S","off":off,"data":[],"panic":"","err":""}));
            }
            Ok(Ok(Chunk::Data((off, slice)))) => {
                out.emit(&json!({"run":run.run,"ev":"chunk","k":"D","off":off,"data":slice.slice(),"panic":"","err":""}));
                if keep {
                    kept.push(slice);
                }
            }
            Ok(Err(e)) => {
                out.emit(&json!({"run":run.run,"ev":"chunk","k":"X","off":0,"data":[],"panic":"","err":format!("{:?}", e.kind())}));
                break;
            }
            Err(p) => {
                out.emit(&json!({"run":run.run,"ev":"chunk","k":"X","off":0,"data":[],"panic":p,"err":""}));
                break;
            }
        }
    }
    // C05: the arena moves on; every chunk handed out earlier must still be alive and unchanged
    arena.flush_cache();
    arena.ensure_capacity(5000);
    let live = owning_iovec::verif::live_chunks();
    let is_live = |a: usize, l: usize| l == 0 || live.iter().any(|(_, b, n)| a >= *b && a + l <= b + n);
    let dangling = kept.iter().filter(|k| !is_live(k.slice().as_ptr() as usize, k.slice().len())).count();
    let again: Vec<Value> = if dangling == 0 { kept.iter().map(|k| json!(k.slice())).collect() } else { vec![] };
    out.emit(&json!({"run":run.run,"ev":"recheck","dangling":dangling,"chunks":again,"kept":keep as u8}));
    drop(kept);
    out.emit(&json!({"run":run.run,"ev":"end","eof":eof as u8,"delivered":rd.pos}));
}

fn run_reader(run: &Run, out: &mut Trace) {
    let stream = bytes_of(&run.cfg["stream"]);
    let block = geti(&run.cfg, "block");
    let block = if block < 0 { None } else { Some(block as usize) };
    let sched: Vec<i64> = run.cfg["sched"].as_array().map(|a| a.iter().map(|x| x.as_i64().unwrap()).collect()).unwrap_or_default();
    let max = geti(&run.cfg, "max");
    let limit = geti(&run.cfg, "limit");
    let std_judge = StreamReader::chunk_judge(
        if max < 0 { usize::MAX } else { max as usize },
        if limit < 0 { None } else { Some(limit as u64) },
    );
    // a judge of the family of StreamFraming.tla: the standard one, plus "skip records starting at these offsets"
    // and "stop when the range starts at one of these offsets"
    let set_of = |k: &str| -> Vec<u64> { run.cfg[k].as_array().map(|a| a.iter().map(|x| x.as_u64().unwrap()).collect()).unwrap_or_default() };
    let (skip_at, stop_at) = (set_of("skip_at"), set_of("stop_at"));
    let judge = |range: std::ops::Range<u64>, iov: owning_iovec::ConsumingIovec<'_>| {
        if stop_at.contains(&range.start) {
            return hcobs::StreamAction::Stop;
        }
        let nonempty = !range.is_empty();
        let start = range.start;
        match std_judge(range, iov) {
            hcobs::StreamAction::KeepGoing if nonempty && skip_at.contains(&start) => hcobs::StreamAction::SkipRecord,
            other => other,
        }
    };
    let mut rd = ScriptReader { data: &stream, pos: 0, sched, idx: 0, calls: 0 };
    let mut sr = StreamReader::new();
    let mut done = false;
    for _ in 0..(stream.len() + 3) {
        let r = guarded(|| match sr.next_record_bytes(&mut rd, &judge, block) {
            Ok(Some((iov, range))) => {
                let live = owning_iovec::verif::live_chunks();
                let dangling = iov
                    .stable_prefix()
                    .iter()
                    .filter(|s| !live.iter().any(|(_, b, n)| s.as_ptr() as usize >= *b && s.as_ptr() as usize + s.len() <= b + n))
                    .count();
                let data = if dangling > 0 {
                    (vec![], false)
                } else {
                    match iov.flatten() {
                        Ok(v) => (v, true),
                        Err(v) => (v, false),
                    }
                };
                Ok(Some(((data.0, data.1, dangling), range)))
            }
            Ok(None) => Ok(None),
            Err(e) => Err(format!("{:?}", e.kind())),
        });
        let lso = sr.last_sentinel_offset();
        match r {
            Ok(Ok(Some(((data, okflat, dangling), range)))) => {
                out.emit(&json!({"run":run.run,"ev":"record","data":data,"a":range.start,"b":range.end,"lso":lso,
                                 "flat_ok":okflat as u8,"dangling":dangling,"panic":"","err":""}));
            }
            Ok(Ok(None)) => {
                out.emit(&json!({"run":run.run,"ev":"none","lso":lso,"panic":"","err":""}));
                done = true;
                break;
            }
            Ok(Err(e)) => {
                out.emit(&json!({"run":run.run,"ev":"none","lso":lso,"panic":"","err":e}));
                break;
            }
            Err(p) => {
                out.emit(&json!({"run":run.run,"ev":"none","lso":lso,"panic":p,"err":""}));
                break;
            }
        }
    }
    out.emit(&json!({"run":run.run,"ev":"end","eof":done as u8,"delivered":rd.pos}));
}

pub fn drive_stream(ops: &str, trace: &str) {
    let runs = read_runs(ops);
    let mut out = Trace::create(trace);
    for run in &runs {
        let kind = gets(&run.cfg, "kind").to_string();
        out.emit(&json!({"run":run.run,"ev":"reset","kind":kind,"stream":run.cfg["stream"],
                         "block":run.cfg["block"],"max":run.cfg["max"].as_i64().unwrap_or(-1),
                         "limit":run.cfg["limit"].as_i64().unwrap_or(-1),
                         "skip_at":run.cfg.get("skip_at").cloned().unwrap_or(json!([])),"stop_at":run.cfg.get("stop_at").cloned().unwrap_or(json!([])),
                         "live":ByteArena::num_live_bytes(),"chunks":ByteArena::num_live_chunks()}));
        match kind.as_str() {
            "chunker" => run_chunker(run, &mut out),
            "reader" => run_reader(run, &mut out),
            k => panic!("harness: unknown stream kind {k}"),
        }
        out.emit(&json!({"run":run.run,"ev":"dropped","live":ByteArena::num_live_bytes(),"chunks":ByteArena::num_live_chunks()}));
    }
    out.finish();
}
